// C15 (part c): the latency monitor's CRC16 copy and synthetic key search.
// Unexported identifiers used: crc16, findKeyInRange.
package latencymonitor

import (
	"fmt"
	"strconv"
	"testing"

	"github.com/alibaba/RedisShake/verifrt/crcref"
	"github.com/alibaba/RedisShake/verifrt/ev"
)

func c15lCrc(b []byte) {
	if crc16(string(b)) != crcref.CRC16(b) {
		ev.Violate("C15|crc16-latencymonitor", fmt.Sprintf("latencymonitor.crc16(%q)=%04x, CRC-16/XMODEM is %04x", b, crc16(string(b)), crcref.CRC16(b)),
			map[string]string{"sub": "crc16", "input": strconv.Quote(string(b))})
	}
}

func c15lRange(l, r int) {
	key := findKeyInRange(l, r)
	s := crcref.Slot([]byte(key))
	if s < l || s > r {
		ev.Violate("C15|latency-key-outside", fmt.Sprintf("synthetic key %q chosen for [%d,%d] hashes to slot %d", key, l, r, s),
			map[string]string{"sub": "range", "l": strconv.Itoa(l), "r": strconv.Itoa(r)})
	}
}

func TestVerif_C15L(t *testing.T) {
	defer ev.Flush("C15")
	if !crcref.SelfCheck() {
		t.Fatal("reference CRC self check failed")
	}
	if ev.ReplayFile() != "" {
		var rp map[string]string
		if err := ev.LoadReplay(&rp); err != nil {
			t.Fatal(err)
		}
		switch rp["sub"] {
		case "crc16":
			k, _ := strconv.Unquote(rp["input"])
			c15lCrc([]byte(k))
		case "range":
			l, _ := strconv.Atoi(rp["l"])
			r, _ := strconv.Atoi(rp["r"])
			c15lRange(l, r)
		}
		return
	}
	si, _ := ev.ShardInfo()
	var n int64
	if si == 0 {
		for a := 0; a < 256; a++ {
			c15lCrc([]byte{byte(a)})
			for b := 0; b < 256; b++ {
				c15lCrc([]byte{byte(a), byte(b)})
				n++
			}
		}
		long := make([]byte, 300)
		for i := range long {
			long[i] = byte(i*7 + 3)
			c15lCrc(long[:i+1])
		}
	}
	// every singleton range (termination included: a hang is reported by the driver), plus a grid
	for l := 0; l < 16384; l++ {
		if !ev.Mine(int64(l)) {
			continue
		}
		c15lRange(l, l)
		n++
		if l%257 == 0 {
			for r := l; r < 16384; r += 257 {
				c15lRange(l, r)
				n++
			}
		}
	}
	ev.Eval(n)
	ev.StatesAdd(n)
	ev.Trans(n)
	ev.Trace(n)
	ev.NontrivialAdd(n)
	ev.Sample("latency-range", map[string]interface{}{"l": 100, "r": 100, "chosen": findKeyInRange(100, 100)})
}
