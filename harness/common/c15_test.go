// C15 (parts a,b): key-to-slot mapping and checkpoint key choice. Package utils.
// Unexported identifiers used: crc16.
package utils

import (
	"fmt"
	"strconv"
	"testing"

	"github.com/alibaba/RedisShake/verifrt/crcref"
	"github.com/alibaba/RedisShake/verifrt/ev"
)

func c15Key(key []byte) {
	want := crcref.Slot(key)
	got := int(KeyToSlot(string(key)))
	if got != want {
		// class: arrangement of braces only
		shape := ""
		for _, c := range key {
			if c == '{' || c == '}' {
				shape += string(c)
			} else if len(shape) == 0 || shape[len(shape)-1] != 'x' {
				shape += "x"
			}
		}
		ev.Violate("C15|slot", fmt.Sprintf("KeyToSlot(%q)=%d, cluster specification says %d (brace shape %s)", key, got, want, shape),
			map[string]string{"sub": "key", "key": strconv.Quote(string(key))})
	}
}

func TestVerif_C15(t *testing.T) {
	defer ev.Flush("C15")
	if !crcref.SelfCheck() {
		t.Fatal("reference CRC self check failed")
	}
	if ev.ReplayFile() != "" {
		var rp map[string]string
		if err := ev.LoadReplay(&rp); err != nil {
			t.Fatal(err)
		}
		switch rp["sub"] {
		case "key":
			k, _ := strconv.Unquote(rp["key"])
			c15Key([]byte(k))
			t.Logf("KeyToSlot(%q)=%d spec=%d", k, KeyToSlot(k), crcref.Slot([]byte(k)))
		case "range":
			l, _ := strconv.Atoi(rp["l"])
			r, _ := strconv.Atoi(rp["r"])
			c15Range(l, r)
		case "crc16":
			k, _ := strconv.Unquote(rp["input"])
			c15Crc([]byte(k))
		}
		return
	}
	si, sn := ev.ShardInfo()
	// (a) all strings over {,},a,b up to maxLen
	maxLen := 9
	if ev.Thorough() {
		maxLen = 12
	}
	ev.Bound("brace_strings_max_len", maxLen)
	sigma := []byte{'{', '}', 'a', 'b'}
	buf := make([]byte, 0, maxLen)
	var n int64
	var rec func(depth int, idx int64)
	rec = func(depth int, idx int64) {
		if depth == 3 && !ev.Mine(idx) {
			return
		}
		if depth >= 3 || si == 0 {
			c15Key(buf)
			n++
		}
		if depth == maxLen {
			return
		}
		for i, c := range sigma {
			buf = append(buf, c)
			rec(depth+1, idx*4+int64(i))
			buf = buf[:len(buf)-1]
		}
	}
	rec(0, 0)
	ev.Sample("key", "a{b}{a}")
	// all 1- and 2-byte keys, and {X} / a{X}b wrappers of every byte
	if si == 1%sn {
		for a := 0; a < 256; a++ {
			c15Key([]byte{byte(a)})
			c15Crc([]byte{byte(a)})
			c15Key([]byte{'{', byte(a), '}'})
			c15Key([]byte{'a', '{', byte(a), '}', 'b'})
			n += 3
			for b := 0; b < 256; b++ {
				c15Key([]byte{byte(a), byte(b)})
				c15Crc([]byte{byte(a), byte(b)})
				c15Key([]byte{'{', byte(a), byte(b), '}', 'z'})
				n += 2
			}
		}
		long := make([]byte, 300)
		for i := range long {
			long[i] = byte(i*7 + 3)
			c15Crc(long[:i+1])
		}
	}
	ev.Eval(n)
	ev.StatesAdd(n)
	ev.Trans(n)
	ev.Trace(n)
	ev.NontrivialAdd(n)

	// (b) checkpoint key for slot ranges
	var nr int64
	if ev.Thorough() {
		ev.Bound("ranges", "all 0<=l<=r<=16383")
		for l := 0; l < 16384; l++ {
			if !ev.Mine(int64(l)) {
				continue
			}
			for r := l; r < 16384; r++ {
				c15Range(l, r)
				nr++
			}
			if l%64 == 0 && ev.OverBudget() {
				ev.Cap(fmt.Sprintf("time budget in range enumeration at l=%d", l))
				break
			}
		}
	} else {
		ev.Bound("ranges", "all singletons [s,s]; all [l,r] with l,r multiples of 257 or 16383; all [0,r] and [l,16383]")
		for l := 0; l < 16384; l++ {
			if !ev.Mine(int64(l)) {
				continue
			}
			c15Range(l, l)
			c15Range(0, l)
			c15Range(l, 16383)
			nr += 3
			if l%257 == 0 {
				for r := l; r < 16384; r += 257 {
					c15Range(l, r)
					nr++
				}
			}
		}
	}
	// (c) histories: a topology change makes one process ask for different ranges one after the
	// other, so the answer for a range must not depend on what was asked before. All ranges over
	// a set of boundaries whose decimal digits run into each other are asked in one process; every
	// shard uses another order (rotations of the ascending and of the descending order), so each
	// pair of ranges is asked in both orders somewhere.
	bounds := []int{0, 1, 2, 3, 11, 12, 23, 34, 112, 123, 234, 341, 1123, 1234, 2341, 5460, 5461, 10922, 10923, 11234, 12341, 16382, 16383}
	var dom [][2]int
	for i, l := range bounds {
		for _, r := range bounds[i:] {
			dom = append(dom, [2]int{l, r})
		}
	}
	si, sn = ev.ShardInfo()
	rot := (si / 2) * len(dom) / ((sn + 1) / 2)
	var hn int64
	for pass := 0; pass < 2; pass++ {
		for k := range dom {
			j := (k + rot) % len(dom)
			if si%2 == 1 {
				j = len(dom) - 1 - j
			}
			c15Range(dom[j][0], dom[j][1])
			hn++
		}
	}
	ev.Bound("history_ranges", len(dom))
	ev.Count("range_queries_in_one_process_history", hn)
	nr += hn
	ev.Eval(nr)
	ev.StatesAdd(nr)
	ev.Trans(nr)
	ev.Trace(nr)
	ev.NontrivialAdd(nr)
	ev.Sample("range", map[string]interface{}{"l": 5461, "r": 5461, "chosen": ChoseSlotInRange(CheckpointKey, 5461, 5461)})
}

func c15Crc(b []byte) {
	if crc16(string(b)) != crcref.CRC16(b) {
		ev.Violate("C15|crc16-common", fmt.Sprintf("common.crc16(%q)=%04x, CRC-16/XMODEM is %04x", b, crc16(string(b)), crcref.CRC16(b)),
			map[string]string{"sub": "crc16", "input": strconv.Quote(string(b))})
	}
}

func c15Range(l, r int) {
	key := ChoseSlotInRange(CheckpointKey, l, r)
	rep := map[string]string{"sub": "range", "l": strconv.Itoa(l), "r": strconv.Itoa(r)}
	if key == "" {
		ev.Violate("C15|range-no-key", fmt.Sprintf("no checkpoint key found for slot range [%d,%d]", l, r), rep)
		return
	}
	s := crcref.Slot([]byte(key))
	if s < l || s > r {
		ev.Violate("C15|range-outside", fmt.Sprintf("checkpoint key %q chosen for [%d,%d] hashes to slot %d", key, l, r, s), rep)
	}
	if s2 := int(KeyToSlot(key)); s2 != s {
		ev.Violate("C15|range-keytoslot", fmt.Sprintf("checkpoint key %q: KeyToSlot says %d, specification %d", key, s2, s), rep)
	}
	if len(key) < len(CheckpointKey) || key[:len(CheckpointKey)] != CheckpointKey {
		ev.Violate("C15|range-not-checkpoint-prefixed", fmt.Sprintf("checkpoint key %q chosen for [%d,%d] does not start with the checkpoint name (the key filter excludes by that prefix)", key, l, r), rep)
	}
	ev.Outcome(key)
}
