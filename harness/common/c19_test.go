// C19 (connection helpers): no configured password reaches a log line or an error text, whatever
// the peer answers while a connection is opened. Package utils.
// Every connection-opening helper of utils.go is driven with every environment answer of a small
// menu (dial refused, AUTH accepted, AUTH rejected, AUTH unknown to the peer which echoes the
// arguments like Redis >= 5, cluster start nodes unreachable, cluster start node that is a
// standalone server) x log level x auth_type. The cluster client dials by itself, so those
// answers come from a real loopback listener served by the model Redis.
package utils

import (
	"bytes"
	"encoding/base64"
	"encoding/hex"
	"encoding/json"
	"fmt"
	"net"
	"sort"
	"strings"
	"sync"
	"testing"
	"time"

	"github.com/alibaba/RedisShake/pkg/libs/log"
	conf "github.com/alibaba/RedisShake/redis-shake/configure"
	"github.com/alibaba/RedisShake/verifrt/ev"
	"github.com/alibaba/RedisShake/verifrt/hook"
	"github.com/alibaba/RedisShake/verifrt/memconn"
	"github.com/alibaba/RedisShake/verifrt/mredis"
)

const c19uPw = "UtlPw-5d81c3aa-Sentinel"

type c19uCase struct {
	Helper   string `json:"helper"`
	Env      string `json:"environment"`
	Level    string `json:"log_level"`
	AuthType string `json:"auth_type"`
}

type c19uBuf struct {
	mu sync.Mutex
	b  bytes.Buffer
}

func (l *c19uBuf) Write(p []byte) (int, error) {
	l.mu.Lock()
	defer l.mu.Unlock()
	return l.b.Write(p)
}
func (l *c19uBuf) String() string {
	l.mu.Lock()
	defer l.mu.Unlock()
	return l.b.String()
}

func c19uLeaks(text string) []string {
	var out []string
	forms := map[string]string{
		"plain":  c19uPw,
		"hex":    hex.EncodeToString([]byte(c19uPw)),
		"HEX":    strings.ToUpper(hex.EncodeToString([]byte(c19uPw))),
		"base64": base64.StdEncoding.EncodeToString([]byte(c19uPw)),
		"bytes":  strings.Trim(fmt.Sprint([]byte(c19uPw)), "[]"),
	}
	for f, s := range forms {
		if strings.Contains(text, s) {
			out = append(out, "password ("+f+")")
		}
	}
	sort.Strings(out)
	return out
}

var c19uHelpers = []string{"OpenRedisConn", "OpenRedisConnWithTimeout", "OpenRedisConn-cluster", "OpenNetConn", "OpenNetConnSoft", "GetRedisVersion", "GetRDBChecksum", "AuthPassword", "GetSlotDistribution"}
var c19uEnvs = []string{"refused", "auth-ok", "auth-rejected", "auth-unknown-echo", "peer-closes"}
var c19uClusterEnvs = []string{"unreachable", "standalone-peer", "standalone-peer-echo", "peer-closes"}

// c19uRun returns the leaking texts of one case.
func c19uRun(c c19uCase) (leaks []string, sites int) {
	buf := &c19uBuf{}
	old := log.StdLog
	log.StdLog = log.New(buf, "")
	log.SetFlags(log.Lshortfile)
	defer func() { log.StdLog = old }()
	if c.Level == "debug" {
		log.SetLevel(log.LEVEL_DEBUG)
	} else {
		log.SetLevel(log.LEVEL_INFO)
	}
	hook.SetExitHook(func(int) {})
	defer hook.SetExitHook(nil)
	defer hook.SetDialHook(nil)
	opt := mredis.Options{Password: c19uPw}
	switch c.Env {
	case "auth-rejected":
		opt.Password = "another-password"
	case "auth-unknown-echo", "standalone-peer-echo":
		opt.Unknown = map[string]bool{c.AuthType: true, "cluster": true}
	}
	srv := mredis.New(opt)
	var opened []*memconn.Conn
	var mu sync.Mutex
	hook.SetDialHook(func(network, addr string) (net.Conn, error, bool) {
		if c.Env == "refused" {
			return nil, fmt.Errorf("dial tcp %s: connect: connection refused", addr), true
		}
		cc, sc := memconn.Pair(addr)
		mu.Lock()
		opened = append(opened, sc)
		mu.Unlock()
		if c.Env == "peer-closes" {
			sc.Close()
		} else {
			go srv.Serve(sc)
		}
		return cc, nil, true
	})
	target := "tgt:6379"
	var ln net.Listener
	if c.Helper == "OpenRedisConn-cluster" {
		// the cluster client dials on its own: a real loopback endpoint
		target = "127.0.0.1:1"
		if c.Env != "unreachable" {
			var err error
			ln, err = net.Listen("tcp", "127.0.0.1:0")
			if err != nil {
				return []string{"harness: " + err.Error()}, 0
			}
			target = ln.Addr().String()
			go func() {
				for {
					conn, err := ln.Accept()
					if err != nil {
						return
					}
					if c.Env == "peer-closes" {
						conn.Close()
						continue
					}
					go srv.Serve(conn)
				}
			}()
		}
	}
	var texts []string
	done := make(chan struct{})
	go func() {
		defer close(done)
		defer func() {
			if x := recover(); x != nil {
				texts = append(texts, fmt.Sprintf("panic value: %v", x))
			}
		}()
		note := func(err error) {
			if err != nil {
				texts = append(texts, "returned error: "+err.Error())
			}
		}
		switch c.Helper {
		case "OpenRedisConn":
			conn, err := OpenRedisConn([]string{target}, c.AuthType, c19uPw, false, false)
			note(err)
			if conn != nil {
				_, err = conn.Do("ping")
				note(err)
				conn.Close()
			}
		case "OpenRedisConnWithTimeout":
			conn, err := OpenRedisConnWithTimeout([]string{target}, c.AuthType, c19uPw, time.Second, time.Second, false, false)
			note(err)
			if conn != nil {
				conn.Close()
			}
		case "OpenRedisConn-cluster":
			conn, err := OpenRedisConn([]string{target}, c.AuthType, c19uPw, true, false)
			note(err)
			if conn != nil {
				_, err = conn.Do("ping")
				note(err)
				conn.Close()
			}
		case "OpenNetConn":
			conn, err := OpenNetConn(target, c.AuthType, c19uPw, false)
			note(err)
			if conn != nil {
				conn.Close()
			}
		case "OpenNetConnSoft":
			if conn := OpenNetConnSoft(target, c.AuthType, c19uPw, false); conn != nil {
				conn.Close()
			}
		case "GetSlotDistribution":
			_, err := GetSlotDistribution(target, c.AuthType, c19uPw, false)
			note(err)
		case "GetRedisVersion":
			v, err := GetRedisVersion(target, c.AuthType, c19uPw, false)
			note(err)
			texts = append(texts, "returned value: "+v)
		case "GetRDBChecksum":
			v, err := GetRDBChecksum(target, c.AuthType, c19uPw, false)
			note(err)
			texts = append(texts, "returned value: "+v)
		case "AuthPassword":
			if c.Env == "refused" {
				return
			}
			cc, sc := memconn.Pair(target)
			mu.Lock()
			opened = append(opened, sc)
			mu.Unlock()
			if c.Env == "peer-closes" {
				sc.Close()
			} else {
				go srv.Serve(sc)
			}
			note(AuthPassword(cc, c.AuthType, c19uPw))
		}
	}()
	select {
	case <-done:
	case <-time.After(20 * time.Second):
		texts = append(texts, "harness: helper did not return within 20 s")
	}
	if ln != nil {
		ln.Close()
	}
	mu.Lock()
	for _, sc := range opened {
		sc.Cut()
	}
	mu.Unlock()
	logText := buf.String()
	for _, line := range strings.Split(logText, "\n") {
		if line == "" {
			continue
		}
		sites++
		if l := c19uLeaks(line); len(l) > 0 {
			leaks = append(leaks, fmt.Sprintf("%s in log line %q", strings.Join(l, ", "), line))
		}
	}
	for _, tx := range texts {
		if strings.HasPrefix(tx, "harness:") {
			leaks = append(leaks, tx)
		} else if l := c19uLeaks(tx); len(l) > 0 {
			if c.Helper == "AuthPassword" {
				// its error carries the peer's reply (which may echo the arguments); every caller
				// discards it, and the parts that drive those callers watch their log lines: counted, not judged
				ev.Count("returned_texts_carrying_the_password", 1)
			} else {
				// the callers of the other helpers print the error they get back (start-up checks,
				// sync/dump/restore entry points): a password in it is a password in the log
				leaks = append(leaks, fmt.Sprintf("%s in the %s (its callers log it)", strings.Join(l, ", "), tx))
			}
		}
	}
	return
}

func TestVerif_C19U(t *testing.T) {
	defer ev.Flush("C19")
	if ev.ReplayFile() != "" {
		var c c19uCase
		if err := ev.LoadReplay(&c); err != nil {
			t.Fatal(err)
		}
		if c.Helper == "" {
			return // a replay file of another part
		}
		for i := 0; i < 2; i++ {
			leaks, _ := c19uRun(c)
			t.Logf("replay %+v -> %v", c, leaks)
			for _, l := range leaks {
				ev.Violate("C19|helper="+c.Helper+"|"+c19uClass(l), l, c)
			}
		}
		return
	}
	var n, idx, lines int64
	for _, helper := range c19uHelpers {
		envs := c19uEnvs
		if helper == "OpenRedisConn-cluster" {
			envs = c19uClusterEnvs
		}
		for _, env := range envs {
			for _, level := range []string{"info", "debug"} {
				for _, at := range []string{"auth", "adminauth"} {
					idx++
					if !ev.Mine(idx) {
						continue
					}
					c := c19uCase{helper, env, level, at}
					leaks, sites := c19uRun(c)
					n++
					lines += int64(sites)
					h := ev.HashS(fmt.Sprint(c))
					ev.State(h)
					if env != "auth-ok" {
						ev.Nontrivial(h)
					}
					if len(leaks) == 0 {
						ev.Outcome("clean")
					}
					for _, l := range leaks {
						ev.Outcome("leak")
						ev.Violate("C19|helper="+helper+"|"+c19uClass(l), fmt.Sprintf("%s (helper %s, environment %s, log level %s, auth_type %s)", l, helper, env, level, at), c)
					}
					if n%9 == 1 {
						ev.Sample("helper-call", c)
					}
				}
			}
		}
	}
	ev.Eval(n)
	ev.Trace(n)
	ev.Trans(lines)
	ev.Count("log_lines_inspected", lines)
}

func c19uClass(l string) string {
	switch {
	case strings.HasPrefix(l, "harness:"):
		return "harness"
	case strings.Contains(l, "in log line"):
		return "log"
	case strings.Contains(l, "returned error"):
		return "error-text"
	}
	return "other"
}

// TestVerif_C19Race: the masked configuration document is produced for several readers at once
// (REST /conf polls, the start-up echo). Eight goroutines request it concurrently; no rendering
// may contain a configured password. A -race build reports a masked copy shared between callers.
func TestVerif_C19Race(t *testing.T) {
	defer ev.Flush("C19")
	if ev.ReplayFile() != "" {
		return
	}
	si, _ := ev.ShardInfo()
	if si != 0 {
		return
	}
	conf.Options.SourcePasswordRaw, conf.Options.TargetPasswordRaw = c19uPw, c19uPw
	conf.Options.SourcePasswordEncoding, conf.Options.TargetPasswordEncoding = c19uPw, c19uPw
	defer func() {
		conf.Options.SourcePasswordRaw, conf.Options.TargetPasswordRaw = "", ""
		conf.Options.SourcePasswordEncoding, conf.Options.TargetPasswordEncoding = "", ""
	}()
	var wg sync.WaitGroup
	var mu sync.Mutex
	bad := ""
	const workers, rounds = 8, 3000
	for w := 0; w < workers; w++ {
		wg.Add(1)
		go func(w int) {
			defer wg.Done()
			for r := 0; r < rounds; r++ {
				safe := conf.GetSafeOptions()
				b, _ := json.Marshal(safe)
				text := string(b)
				if r%16 == 0 {
					text += fmt.Sprintf(" %v %+v", safe, safe)
				}
				if l := c19uLeaks(text); len(l) > 0 {
					mu.Lock()
					if bad == "" {
						bad = fmt.Sprintf("reader %d of %d concurrent ones, request %d: the masked configuration contains the %s", w, workers, r, strings.Join(l, ", "))
					}
					mu.Unlock()
					return
				}
			}
		}(w)
	}
	wg.Wait()
	if bad != "" {
		ev.Violate("C19|concurrent-config-readers", bad, c19uCase{Helper: "GetSafeOptions", Env: "concurrent"})
	}
	n := int64(workers * rounds)
	ev.Eval(n)
	ev.Trace(n)
	ev.Trans(n)
	ev.StatesAdd(n)
	ev.NontrivialAdd(n)
}
