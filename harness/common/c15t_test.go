// C15 (cluster layouts): the slot ranges the tool derives from CLUSTER SLOTS, and the checkpoint
// key it chooses for each of them. Every layout over a small set of cut points and three masters
// (masters owning one, two or three ranges, with other masters' slots in the gaps) is answered by
// a model node to the real GetSlotDistribution; for every returned shard the real
// ChoseSlotInRange key must hash (reference CRC16) into a slot that shard's master owns, and the
// shard's range must contain only slots of that master.
package utils

import (
	"fmt"
	"net"
	"strings"
	"testing"

	"github.com/alibaba/RedisShake/pkg/libs/log"
	"github.com/alibaba/RedisShake/verifrt/crcref"
	"github.com/alibaba/RedisShake/verifrt/ev"
	"github.com/alibaba/RedisShake/verifrt/hook"
	"github.com/alibaba/RedisShake/verifrt/memconn"
	"github.com/alibaba/RedisShake/verifrt/mredis"
)

type c15tRange struct {
	L, R   int
	Master int
}

type c15tCase struct {
	Ranges []c15tRange `json:"ranges"`
	Rev    bool        `json:"reply_in_reverse_order"`
}

func c15tReply(c c15tCase) []byte {
	var b strings.Builder
	rs := append([]c15tRange{}, c.Ranges...)
	if c.Rev {
		for i, j := 0, len(rs)-1; i < j; i, j = i+1, j-1 {
			rs[i], rs[j] = rs[j], rs[i]
		}
	}
	fmt.Fprintf(&b, "*%d\r\n", len(rs))
	for _, r := range rs {
		ip := "10.1.0." + fmt.Sprint(r.Master+1)
		rip := "10.1.1." + fmt.Sprint(r.Master+1)
		fmt.Fprintf(&b, "*4\r\n:%d\r\n:%d\r\n*2\r\n$%d\r\n%s\r\n:7000\r\n*2\r\n$%d\r\n%s\r\n:7000\r\n", r.L, r.R, len(ip), ip, len(rip), rip)
	}
	return []byte(b.String())
}

func c15tRun(c c15tCase) (kind, what string) {
	reply := c15tReply(c)
	srv := mredis.New(mredis.Options{ReplyHook: func(cmd mredis.Cmd) []byte {
		if cmd.Name() == "cluster" {
			return reply
		}
		return nil
	}})
	hook.SetDialHook(func(network, addr string) (net.Conn, error, bool) {
		cc, sc := memconn.Pair(addr)
		go srv.Serve(sc)
		return cc, nil, true
	})
	defer hook.SetDialHook(nil)
	owners, err := GetSlotDistribution("10.1.0.1:7000", "auth", "", false)
	if err != nil {
		return "error", fmt.Sprintf("GetSlotDistribution fails on a well-formed CLUSTER SLOTS reply: %v", err)
	}
	owner := make([]string, 16384)
	for _, r := range c.Ranges {
		for s := r.L; s <= r.R; s++ {
			owner[s] = fmt.Sprintf("10.1.0.%d:7000", r.Master+1)
		}
	}
	covered := make([]bool, 16384)
	for _, o := range owners {
		if o.SlotLeftBoundary > o.SlotRightBoundary || o.SlotLeftBoundary < 0 || o.SlotRightBoundary > 16383 {
			return "range", fmt.Sprintf("shard of %s has the range [%d,%d]", o.Master, o.SlotLeftBoundary, o.SlotRightBoundary)
		}
		for s := o.SlotLeftBoundary; s <= o.SlotRightBoundary; s++ {
			if owner[s] != o.Master {
				return "foreign-slot-in-range", fmt.Sprintf("the shard [%d,%d] of master %s contains slot %d, which CLUSTER SLOTS gives to %q", o.SlotLeftBoundary, o.SlotRightBoundary, o.Master, s, owner[s])
			}
			covered[s] = true
		}
		key := ChoseSlotInRange(CheckpointKey, o.SlotLeftBoundary, o.SlotRightBoundary)
		if s := crcref.Slot([]byte(key)); owner[s] != o.Master {
			return "checkpoint-key-in-foreign-shard", fmt.Sprintf("the checkpoint key %q chosen for the shard [%d,%d] of master %s hashes to slot %d, which belongs to %q", key, o.SlotLeftBoundary, o.SlotRightBoundary, o.Master, s, owner[s])
		}
	}
	for s := 0; s < 16384; s++ {
		if owner[s] != "" && !covered[s] {
			return "slot-without-shard", fmt.Sprintf("slot %d (master %s) is in no shard the tool derived", s, owner[s])
		}
	}
	return "", ""
}

func TestVerif_C15T(t *testing.T) {
	defer ev.Flush("C15")
	log.SetLevel(log.LEVEL_NONE)
	if ev.ReplayFile() != "" {
		var c c15tCase
		if err := ev.LoadReplay(&c); err != nil {
			t.Fatal(err)
		}
		if len(c.Ranges) == 0 {
			return
		}
		k, w := c15tRun(c)
		t.Logf("replay %+v -> %s %s", c, k, w)
		if k != "" {
			ev.Violate("C15|layout|"+k, w, c)
		}
		return
	}
	// consecutive ranges between cut points; every assignment of three masters in which neighbours differ
	cuts := []int{0, 1, 1000, 1365, 5461, 10923, 12288, 14000, 16383, 16384}
	if !ev.Thorough() {
		cuts = []int{0, 1000, 1365, 5461, 10923, 14000, 16384}
	}
	var n, idx int64
	var rec func(start int, from int, cur []c15tRange)
	rec = func(ci int, _ int, cur []c15tRange) {
		if cuts[ci] == 16384 {
			if len(cur) < 2 {
				return
			}
			for _, rev := range []bool{false, true} {
				idx++
				if !ev.Mine(idx) {
					continue
				}
				c := c15tCase{Ranges: append([]c15tRange{}, cur...), Rev: rev}
				k, w := c15tRun(c)
				n++
				if k != "" {
					ev.Violate("C15|layout|"+k, fmt.Sprintf("%s (layout %+v)", w, c.Ranges), c)
				}
				ev.Outcome("layout:" + k)
				h := ev.HashS(fmt.Sprint(c))
				ev.State(h)
				ev.Nontrivial(h)
				if n%500 == 1 {
					ev.Sample("layout", c)
				}
			}
			return
		}
		// next range: from cuts[ci] to cuts[cj]-1
		for cj := ci + 1; cj < len(cuts); cj++ {
			if len(cur) >= 5 {
				break
			}
			for m := 0; m < 3; m++ {
				if len(cur) > 0 && cur[len(cur)-1].Master == m {
					continue
				}
				rec(cj, 0, append(cur, c15tRange{L: cuts[ci], R: cuts[cj] - 1, Master: m}))
			}
		}
	}
	rec(0, 0, nil)
	ev.Eval(n)
	ev.Trace(n)
	ev.Trans(n * 3)
	ev.Count("cluster_layouts", n)
}
