// C02: restoring an entry leaves the target key equal to the source key. Package utils.
// Unexported identifiers used: none (RestoreRdbEntry and conf.Options are exported).
package utils

import (
	"bytes"
	"fmt"
	"math"
	"sort"
	"strings"
	"testing"
	"time"

	"github.com/alibaba/RedisShake/pkg/libs/log"
	"github.com/alibaba/RedisShake/pkg/rdb"
	conf "github.com/alibaba/RedisShake/redis-shake/configure"
	"github.com/alibaba/RedisShake/verifrt/ev"
	"github.com/alibaba/RedisShake/verifrt/hook"
	"github.com/alibaba/RedisShake/verifrt/memconn"
	"github.com/alibaba/RedisShake/verifrt/mredis"
	"github.com/alibaba/RedisShake/verifrt/rdbcat"
	"github.com/alibaba/RedisShake/verifrt/rdbgen"
	redigo "github.com/garyburd/redigo/redis"
)

type c02Case struct {
	Val       int    `json:"val"`       // index into c02Values
	Exp       int    `json:"exp"`       // 0 none, 1 +1h, 2 past, 3 +400 years, 4 +2h given in seconds
	IdleFreq  int    `json:"idlefreq"`  // 0 none, 1 idle, 2 freq
	Threshold int    `json:"threshold"` // 0: big key threshold 1 (below payload), 1: 1<<30
	KeyExists string `json:"key_exists"`
	Replace   bool   `json:"target_replace"`
	Version   string `json:"target_version"`
	Reject    bool   `json:"target_rejects_payload"`
	Shift     int    `json:"shift_hours"`
	HashTag   bool   `json:"replace_hash_tag"`
	KeyForm   int    `json:"key_form"` // 0 "k", 1 "a{t}b", 2 "a{t}b{u}c"
	Pre       int    `json:"pre"`      // 0 absent, 1 same type, 2 other type
	Name      string `json:"name"`
	// Batched: the target connection keeps the arguments of Send until Flush and serialises them
	// only then, as the tool's cluster connection does (utils.ClusterConn.Send -> Batch.Put)
	Batched bool `json:"batched_connection,omitempty"`
	// Debug: log.level = debug (debug lines are built from the entry's data, and must not change it)
	Debug bool `json:"log_level_debug,omitempty"`
	// RefuseNth n>0: the target answers the n-th element command of the element-wise route
	// (RPUSH/SADD/HSET/ZADD) with "-OOM command not allowed when used memory > 'maxmemory'."
	RefuseNth int `json:"target_refuses_nth_element_command,omitempty"`
}

// c02BatchConn models the argument retention of the cluster connection on top of a real redigo
// connection: Send stores the command with its argument values as passed (no copy), Flush hands
// them to the real connection.
type c02BatchConn struct {
	redigo.Conn
	pending []c02Pending
}

type c02Pending struct {
	cmd  string
	args []interface{}
}

func (b *c02BatchConn) Send(cmd string, args ...interface{}) error {
	b.pending = append(b.pending, c02Pending{cmd, args})
	return nil
}

func (b *c02BatchConn) Flush() error {
	for _, p := range b.pending {
		if err := b.Conn.Send(p.cmd, p.args...); err != nil {
			return err
		}
	}
	b.pending = nil
	return b.Conn.Flush()
}

func (b *c02BatchConn) Do(cmd string, args ...interface{}) (interface{}, error) {
	if len(b.pending) > 0 {
		if err := b.Flush(); err != nil {
			return nil, err
		}
	}
	return b.Conn.Do(cmd, args...)
}

var c02Values []*rdbgen.Value
var c02Registry = mredis.NewRegistry()

func c02Init() {
	if c02Values != nil {
		return
	}
	hasNaN := func(v *rdbgen.Value) bool {
		for _, z := range v.Log.ZSet {
			if math.IsNaN(z.Score) {
				return true
			}
		}
		return false
	}
	// a Redis server never writes an empty aggregate (an empty key does not exist)
	empty := func(v *rdbgen.Value) bool {
		lg := v.Log
		return lg.Kind != "string" && lg.Kind != "stream" && len(lg.Elems) == 0 && len(lg.Pairs) == 0 && len(lg.ZSet) == 0
	}
	for _, v := range rdbcat.Values(1) {
		if !hasNaN(v) && !empty(v) {
			c02Values = append(c02Values, v)
		}
	}
	c02Values = append(c02Values, rdbcat.BatchValues()...)
	for _, v := range c02Values {
		c02Registry.Add(v.Type, v.Raw, v.Log)
	}
}

var c02Keys = []string{"k", "a{t}b", "a{t}b{u}c"}

func c02StripTag(k string) string {
	k = strings.Replace(k, "{", "", 1)
	return strings.Replace(k, "}", "", 1)
}

func nowMs() int64 { return time.Now().UnixNano() / int64(time.Millisecond) }

// c02Same compares a target entry with the source logical value.
func c02Same(e *mredis.Entry, lg *rdbgen.Logical, body []byte) string {
	if e == nil {
		return "key is missing"
	}
	want := mredis.FromLogical(lg, body)
	if e.Kind != want.Kind {
		return fmt.Sprintf("type is %s, expected %s", e.Kind, want.Kind)
	}
	ec, wc := *e, *want
	ec.ExpireAt, wc.ExpireAt = 0, 0
	if ec.Canon() != wc.Canon() {
		a, b := ec.Canon(), wc.Canon()
		if len(a) > 160 {
			a = a[:160] + "..."
		}
		if len(b) > 160 {
			b = b[:160] + "..."
		}
		return fmt.Sprintf("value is %s, expected %s", a, b)
	}
	return ""
}

func c02Route(cmds []mredis.Cmd, t byte) string {
	var names []string
	seen := map[string]bool{}
	for _, c := range cmds {
		n := c.Name()
		if !seen[n] {
			seen[n] = true
			names = append(names, n)
		}
	}
	has := func(n string) bool { return seen[n] }
	expands := has("rpush") || has("sadd") || has("hset") || has("zadd") || has("set")
	switch {
	case t == rdb.RdbTypeQuicklist && !has("restore"):
		return "quicklist"
	case has("restore") && expands:
		return "fallback"
	case has("restore"):
		return "restore"
	case expands:
		return "bigkey"
	}
	sort.Strings(names)
	return "none(" + strings.Join(names, ",") + ")"
}

// c02Run performs one restore and judges it. Returns the outcome class.
func c02Run(c c02Case) string {
	c02Init()
	v := c02Values[c.Val]
	c.Name = v.Name
	// the entry comes from the real parser
	opts := rdbgen.KeyOpts{}
	now0 := nowMs()
	shiftMs := int64(c.Shift) * 3600 * 1000
	switch c.Exp {
	case 1:
		opts.ExpKind, opts.ExpAt = "ms", uint64(now0+shiftMs+3600*1000)
	case 2:
		opts.ExpKind, opts.ExpAt = "ms", uint64(now0+shiftMs-5000)
	case 3:
		// four centuries ahead: beyond what an int64 of nanoseconds can hold
		opts.ExpKind, opts.ExpAt = "ms", uint64(now0+shiftMs+400*365*86400*1000)
	case 4:
		// expiry given in seconds
		opts.ExpKind, opts.ExpAt = "s", uint64((now0+shiftMs)/1000+7200)
	}
	switch c.IdleFreq {
	case 1:
		opts.HasIdle, opts.Idle = true, 77
	case 2:
		opts.HasFreq, opts.Freq = true, 9
	}
	keyName := c02Keys[c.KeyForm]
	file, _ := rdbgen.File(9, []rdbgen.Item{rdbgen.Key(rdbgen.RawStr([]byte(keyName), rdbgen.LCanon), v, opts)})
	l := rdb.NewLoader(bytes.NewReader(file))
	if err := l.Header(); err != nil {
		return "parser"
	}
	e, err := l.NextBinEntry()
	if err != nil || e == nil {
		return "parser"
	}
	expMs := int64(opts.ExpAt)
	if opts.ExpKind == "s" {
		expMs *= 1000
	}
	return c02Restore(c, []*rdb.BinEntry{e}, v.Log, append([]byte{v.Type}, v.Raw...), keyName, expMs, shiftMs)
}

func c02Restore(c c02Case, entries []*rdb.BinEntry, lg *rdbgen.Logical, body []byte, keyName string, expireAt, shiftMs int64) string {
	conf.Options.KeyExists = c.KeyExists
	conf.Options.TargetReplace = c.Replace
	conf.Options.TargetVersion = c.Version
	conf.Options.BigKeyThreshold = 1
	if c.Threshold == 1 {
		conf.Options.BigKeyThreshold = 1 << 30
	}
	conf.Options.ShiftTime = time.Duration(c.Shift) * time.Hour
	conf.Options.ReplaceHashTag = c.HashTag
	conf.Options.Metric = true
	conf.Options.FilterLua = false
	targetKey := keyName
	if c.HashTag {
		targetKey = c02StripTag(keyName)
	}
	// the model's clock is frozen at the start of the case, so no key expires while it runs
	frozen := nowMs()
	// a target without RESTORE ... REPLACE is a pre-3.0 kernel: it also words its busy-key error
	// the old way ("ERR Target key name is busy.")
	opt := mredis.Options{Registry: c02Registry, NoReplace: !c.Replace, OldBusyText: !c.Replace, Now: func() int64 { return frozen }}
	if c.Reject {
		opt.RejectTypes = map[byte]bool{entries[0].Type: true}
	}
	refusedHit, elemCmds := false, 0
	if c.RefuseNth > 0 {
		opt.ReplyHook = func(cmd mredis.Cmd) []byte {
			switch cmd.Name() {
			case "rpush", "sadd", "hset", "zadd":
				elemCmds++
				if elemCmds == c.RefuseNth {
					refusedHit = true
					return []byte("-OOM command not allowed when used memory > 'maxmemory'.\r\n")
				}
			}
			return nil
		}
	}
	srv := mredis.New(opt)
	switch c.Pre {
	case 1:
		old := mredis.FromLogical(lg, body)
		switch old.Kind {
		case "string":
			old.Str = []byte("OLD")
		case "list":
			old.List = [][]byte{[]byte("OLD")}
		case "set":
			old.Set = map[string]bool{"OLD": true}
		case "hash":
			old.Hash, old.HashOrd = map[string][]byte{"OLD": []byte("OLD")}, []string{"OLD"}
		case "zset":
			old.ZSet = map[string]float64{"OLD": 1}
		default:
			old.Payload = []byte("OLD")
		}
		srv.Put(0, targetKey, old)
	case 2:
		if lg.Kind == "string" {
			srv.Put(0, targetKey, &mredis.Entry{Kind: "list", List: [][]byte{[]byte("OLD")}})
		} else {
			srv.Put(0, targetKey, &mredis.Entry{Kind: "string", Str: []byte("OLD")})
		}
	}
	before := srv.Snapshot()
	cc, sc := memconn.Pair("target")
	go srv.Serve(sc)
	conf.Options.LogLevel = "info"
	if c.Debug {
		conf.Options.LogLevel = LogLevelDebug
	}
	defer func() { conf.Options.LogLevel = "info" }()
	var rc redigo.Conn = redigo.NewConn(cc, 0, 0)
	if c.Batched {
		rc = &c02BatchConn{Conn: rc}
	}
	defer cc.Close()

	var abortMsg string
	hook.SetExitHook(func(code int) { abortMsg = "log.Panic (os.Exit in production)" })
	var rerr error
	returned := false
	var goPanic interface{}
	done := make(chan struct{})
	go func() {
		defer close(done)
		defer func() {
			if x := recover(); x != nil {
				goPanic = x
			}
		}()
		for _, e := range entries {
			if rerr = RestoreRdbEntry(rc, e); rerr != nil {
				break
			}
		}
		returned = true
	}()
	<-done
	t1 := nowMs()
	hook.SetExitHook(nil)
	cmds := srv.Received()
	route := c02Route(cmds, entries[0].Type)
	pre := []string{"absent", "same-type", "other-type"}[c.Pre]
	ctx := fmt.Sprintf("route=%s|policy=%s|pre=%s", route, c.KeyExists, pre)
	if len(entries) > 1 {
		ctx += "|chunked"
	}
	detail := fmt.Sprintf("replace=%v reject=%v", c.Replace, c.Reject)
	trace := func() string {
		var s []string
		for i, cm := range cmds {
			if i >= 8 {
				s = append(s, fmt.Sprintf("... %d more", len(cmds)-i))
				break
			}
			s = append(s, cm.String())
		}
		return strings.Join(s, " ; ")
	}
	bad := func(kind, what string) string {
		ev.Violate("C02|"+ctx+"|"+kind, fmt.Sprintf("%s (%s %s, value %s, expiry=%d idle/freq=%d version=%q shift=%dh hashtag=%v; commands: %s)", what, ctx, detail, c.Name, c.Exp, c.IdleFreq, c.Version, c.Shift, c.HashTag, trace()), c)
		return route + ":" + kind
	}
	if goPanic != nil {
		return bad("go-panic", fmt.Sprintf("restore panics: %v", goPanic))
	}
	if refusedHit {
		// elements are missing on the target: the restore must say so (it aborts, or returns an error)
		if returned && rerr == nil {
			return bad("element-refusal-ignored", fmt.Sprintf("the target refused element command %d of %d (-OOM) and the restore reports success", c.RefuseNth, elemCmds))
		}
		return route + ":refused"
	}
	if !returned {
		return bad("abort", "restore aborts the tool: "+abortMsg)
	}
	after := srv.Snapshot()
	got := srv.Lookup(0, targetKey)
	// policy when the key already exists
	if c.Pre != 0 {
		switch c.KeyExists {
		case "none":
			if rerr == nil {
				return bad("none-no-error", "key_exists=none, key busy: no error reported")
			}
			if after != before {
				return bad("none-target-changed", "key_exists=none, key busy: target was modified")
			}
			return route + ":none-refused"
		case "ignore":
			if after != before {
				return bad("ignore-target-changed", "key_exists=ignore, key busy: target was modified")
			}
			return route + ":ignored"
		}
	}
	if rerr != nil {
		// an error is never "success"; it is only acceptable where the statement allows one
		return bad("error", "restore fails: "+rerr.Error())
	}
	if c.Exp == 2 && got == nil {
		// the source key is already expired: it gets a 1 ms TTL and may be gone by now
		return route + ":ok-expired"
	}
	if why := c02Same(got, lg, body); why != "" {
		return bad("value", "after a successful restore the target "+why)
	}
	// TTL
	switch {
	case expireAt == 0:
		if got.ExpireAt != 0 {
			return bad("ttl-unexpected", fmt.Sprintf("source has no expiry, target expires at %d", got.ExpireAt))
		}
	case c.Exp == 2:
		// already expired under the shifted clock: the tool gives it 1 ms
		if got.ExpireAt == 0 {
			return bad("ttl-lost", "source key is expired, target key has no expiry")
		}
		if got.ExpireAt > t1+1000 {
			return bad("ttl-wrong", fmt.Sprintf("source key is already expired, target expires %d ms from now", got.ExpireAt-t1))
		}
	default:
		if got.ExpireAt == 0 {
			return bad("ttl-lost", "source key has an expiry, target key has none")
		}
		// target expiry = frozen + (source expiry - shift - clock read by the tool), the tool's clock is in [frozen, t1]
		lo := expireAt - shiftMs - (t1 - frozen) - 1
		hi := expireAt - shiftMs + 1
		if got.ExpireAt < lo-1 || got.ExpireAt > hi {
			return bad("ttl-wrong", fmt.Sprintf("target expires at %d, expected %d (source expiry minus shift) within [%d,%d]", got.ExpireAt, expireAt-shiftMs, lo-1, hi))
		}
	}
	// nothing else was touched
	for _, k := range srv.Keys(0) {
		if k != targetKey {
			return bad("other-key", "restore created another key: "+k)
		}
	}
	return route + ":ok"
}

func TestVerif_C02(t *testing.T) {
	defer ev.Flush("C02")
	log.SetLevel(log.LEVEL_NONE)
	c02Init()
	if ev.ReplayFile() != "" {
		var c c02Case
		if err := ev.LoadReplay(&c); err != nil {
			t.Fatal(err)
		}
		var o string
		if c.Val < 0 {
			o = c02Chunked(c)
		} else {
			o = c02Run(c)
		}
		t.Logf("replay %+v -> %s", c, o)
		return
	}
	var n int64
	var idx int64
	run := func(c c02Case) {
		idx++
		if !ev.Mine(idx) {
			return
		}
		o := c02Run(c)
		n++
		ev.Outcome(o)
		ev.Nontrivial(ev.HashS(fmt.Sprint(c)))
		if n%512 == 1 {
			ev.Sample(strings.Split(o, ":")[0], c)
		}
	}
	policies := []string{"none", "rewrite", "ignore"}
	bools := []bool{false, true}
	nv := len(c02Values)
	// A. value x expiry x idle/freq x threshold x policy x replace x reject x pre-existing
	for v := 0; v < nv; v++ {
		if ev.OverBudget() {
			ev.Cap("time budget in product A")
			break
		}
		big := len(c02Values[v].Raw) > 3000
		nexp := 3
		if ev.Thorough() {
			nexp = 5
		}
		for exp := 0; exp < nexp; exp++ {
			for idf := 0; idf < 3; idf++ {
				if !ev.Thorough() && (idf == 2 && exp != 0 || big && idf != 0) {
					continue
				}
				for thr := 0; thr < 2; thr++ {
					for _, pol := range policies {
						for _, rep := range bools {
							for _, rej := range bools {
								if rej && c02Values[v].Type == rdbgen.TStream {
									continue // a stream cannot be expanded: failing is legitimate
								}
								for pre := 0; pre < 3; pre++ {
									run(c02Case{Val: v, Exp: exp, IdleFreq: idf, Threshold: thr, KeyExists: pol, Replace: rep, Reject: rej, Pre: pre})
								}
							}
						}
					}
				}
			}
		}
	}
	// representatives for the remaining dimensions: one value per type
	var reps []int
	seenT := map[byte]bool{}
	for i, v := range c02Values {
		if !seenT[v.Type] {
			seenT[v.Type] = true
			reps = append(reps, i)
		}
	}
	// B. target version strings x idle/freq
	for _, ver := range []string{"", "5", "5.0", "5.0.7", "4.0", "4", "6.2", "2.8", "5.x", "3.2.12", "10.0"} {
		for _, v := range reps {
			for idf := 0; idf < 3; idf++ {
				for thr := 0; thr < 2; thr++ {
					for _, pol := range policies {
						for pre := 0; pre < 2; pre++ {
							for _, rep := range bools {
								c := c02Case{Val: v, Exp: 1, IdleFreq: idf, Threshold: thr, KeyExists: pol, Replace: rep, Version: ver, Pre: pre}
								run(c)
							}
						}
					}
				}
			}
		}
	}
	// C. time shift x expiry
	for _, sh := range []int{-1, 1, 24} {
		for _, v := range reps {
			for exp := 0; exp < 5; exp++ {
				for thr := 0; thr < 2; thr++ {
					for _, rej := range bools {
						if rej && c02Values[v].Type == rdbgen.TStream {
							continue
						}
						for pre := 0; pre < 2; pre++ {
							run(c02Case{Val: v, Exp: exp, Threshold: thr, KeyExists: "rewrite", Replace: true, Reject: rej, Shift: sh, Pre: pre})
						}
					}
				}
			}
		}
	}
	// D. hash-tag replacement x key forms
	for _, ht := range bools {
		for kf := 0; kf < 3; kf++ {
			for _, v := range reps {
				for thr := 0; thr < 2; thr++ {
					for _, pol := range policies {
						for pre := 0; pre < 3; pre++ {
							for _, rej := range bools {
								if rej && c02Values[v].Type == rdbgen.TStream {
									continue
								}
								run(c02Case{Val: v, Exp: 1, Threshold: thr, KeyExists: pol, Replace: true, Reject: rej, HashTag: ht, KeyForm: kf, Pre: pre})
							}
						}
					}
				}
			}
		}
	}
	// F. a target connection that keeps Send arguments until Flush (cluster connection): every value
	// through the single-RESTORE route, the element-wise route and the fallback
	for v := range c02Values {
		for thr := 0; thr < 2; thr++ {
			for _, rej := range bools {
				if rej && c02Values[v].Type == rdbgen.TStream {
					continue
				}
				for pre := 0; pre < 2; pre++ {
					run(c02Case{Val: v, Exp: 1, Threshold: thr, KeyExists: "rewrite", Replace: true, Reject: rej, Pre: pre, Batched: true})
					// and, on both kinds of connection, with log.level = debug
					run(c02Case{Val: v, Exp: 1, Threshold: thr, KeyExists: "rewrite", Replace: true, Reject: rej, Pre: pre, Batched: pre == 0, Debug: true})
				}
			}
		}
	}
	// G. a target that refuses one element command of the element-wise route (out of memory):
	// the first, second, third and fourth one
	for v := range c02Values {
		for nth := 1; nth <= 4; nth++ {
			for _, batched := range bools {
				run(c02Case{Val: v, Exp: 1, Threshold: 0, KeyExists: "rewrite", Replace: true, RefuseNth: nth, Batched: batched})
			}
		}
	}
	// E. a hash delivered in chunks (> 16 MiB)
	for _, pol := range policies {
		for pre := 0; pre < 3; pre++ {
			for exp := 0; exp < 2; exp++ {
				for _, rep := range bools {
					idx++
					if ev.Mine(idx) {
						o := c02Chunked(c02Case{Val: -1, Exp: exp, KeyExists: pol, Replace: rep, Pre: pre, Threshold: 1})
						n++
						ev.Outcome("chunked-" + o)
					}
				}
			}
		}
	}
	ev.Eval(n)
	ev.Trace(n)
	ev.Trans(n)
	ev.StatesAdd(n)
	ev.Bound("values", nv)
	ev.Bound("product", "A: value x expiry{none,+1h,past} x idle/freq x threshold{below,above} x key_exists x target_replace x target-rejects x pre-existing{absent,same,other}; B: 11 version strings; C: time shift; D: hash tags; E: chunked hash")
}

var c02BigFile []byte
var c02BigVal *rdbgen.Value

// c02Chunked restores a hash that the parser delivers in three chunks.
func c02Chunked(c c02Case) string {
	c.Name = "hash>16MiB in 3 chunks"
	if c02BigFile == nil {
		var elems []rdbgen.Str
		for i, mb := range []int{17, 17, 0} {
			n := 3
			if mb > 0 {
				n = mb * 1024 * 1024
			}
			val := make([]byte, n)
			for k := 0; k < n; k += 4093 {
				val[k] = byte(k)
			}
			elems = append(elems, rdbgen.RawStr([]byte(fmt.Sprintf("f%d", i)), rdbgen.LCanon), rdbgen.RawStr(val, rdbgen.LCanon))
		}
		c02BigVal = rdbgen.HashVal(elems, rdbgen.LCanon)
	}
	now0 := nowMs()
	opts := rdbgen.KeyOpts{}
	if c.Exp == 1 {
		opts.ExpKind, opts.ExpAt = "ms", uint64(now0+3600*1000)
	}
	file, _ := rdbgen.File(9, []rdbgen.Item{rdbgen.Key(rdbgen.RawStr([]byte("k"), rdbgen.LCanon), c02BigVal, opts)})
	l := rdb.NewLoader(bytes.NewReader(file))
	if err := l.Header(); err != nil {
		return "parser"
	}
	var entries []*rdb.BinEntry
	for {
		e, err := l.NextBinEntry()
		if err != nil {
			return "parser"
		}
		if e == nil {
			break
		}
		entries = append(entries, e)
	}
	if len(entries) != 3 {
		return fmt.Sprintf("parser-%d-chunks", len(entries))
	}
	return c02Restore(c, entries, c02BigVal.Log, []byte{rdbgen.THash}, "k", int64(opts.ExpAt), 0)
}
