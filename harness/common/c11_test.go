// C11 (part c2): utils.CheckVersionChecksum on the payloads of the catalogue.
package utils

import (
	"fmt"
	"testing"

	"github.com/alibaba/RedisShake/verifrt/ev"
	"github.com/alibaba/RedisShake/verifrt/rdbcat"
	"github.com/alibaba/RedisShake/verifrt/rdbgen"
)

type c11uCase struct {
	Sub  string `json:"sub"`
	Val  int    `json:"value_index"`
	Pos  int    `json:"pos"`
	Byte int    `json:"byte"`
	Name string `json:"name"`
}

var c11uCache = map[int][]byte{}

func c11uRun(c c11uCase, vals []*rdbgen.Value) {
	v := vals[c.Val]
	check := func(b []byte) (err error) {
		defer func() {
			if x := recover(); x != nil {
				err = fmt.Errorf("go panic: %v", x)
			}
		}()
		_, _, err = CheckVersionChecksum(b)
		return
	}
	p, ok := c11uCache[c.Val]
	if !ok {
		p = rdbgen.Dump(v.Type, v.Raw, 6)
		c11uCache = map[int][]byte{c.Val: p}
	}
	switch c.Sub {
	case "intact":
		if err := check(p); err != nil {
			ev.Violate("C11|checker-rejects-intact", fmt.Sprintf("CheckVersionChecksum rejects the intact payload of %s: %v", v.Name, err), c)
		}
	case "subst":
		orig := p[c.Pos]
		p[c.Pos] = byte(c.Byte)
		err := check(p)
		p[c.Pos] = orig
		// a substitution inside the version field that yields a still supported version with a
		// now wrong checksum must be rejected as well (the checksum covers the version)
		if err == nil {
			ev.Violate("C11|checker-accepts-corrupt", fmt.Sprintf("CheckVersionChecksum accepts the payload of %s with byte %d changed from %02x to %02x", v.Name, c.Pos, orig, c.Byte), c)
		}
	case "version":
		q := rdbgen.Dump(v.Type, v.Raw, uint16(c.Byte))
		err := check(q)
		if c.Byte > int(RDBVersion) && err == nil {
			ev.Violate("C11|checker-accepts-version", fmt.Sprintf("CheckVersionChecksum accepts a correctly sealed payload with version %d (supported: %d)", c.Byte, RDBVersion), c)
		}
		if c.Byte <= int(RDBVersion) && err != nil {
			ev.Violate("C11|checker-rejects-version", fmt.Sprintf("CheckVersionChecksum rejects a correctly sealed payload with supported version %d: %v", c.Byte, err), c)
		}
	case "trunc":
		if err := check(p[:c.Pos]); err == nil {
			ev.Violate("C11|checker-accepts-truncated", fmt.Sprintf("CheckVersionChecksum accepts a %d-byte payload", c.Pos), c)
		}
	}
}

func TestVerif_C11U(t *testing.T) {
	defer ev.Flush("C11")
	vals := rdbcat.Values(1)
	if ev.ReplayFile() != "" {
		var c c11uCase
		if err := ev.LoadReplay(&c); err != nil {
			t.Fatal(err)
		}
		c11uRun(c, vals)
		return
	}
	var n int64
	for i, v := range vals {
		if !ev.Mine(int64(i)) {
			continue
		}
		p := rdbgen.Dump(v.Type, v.Raw, 6)
		c11uRun(c11uCase{"intact", i, 0, 0, v.Name}, vals)
		for pos := 0; pos < len(p); pos++ {
			if len(p) > 700 && pos >= 320 && pos < len(p)-320 {
				continue
			}
			for b := 0; b < 256; b++ {
				if byte(b) != p[pos] {
					c11uRun(c11uCase{"subst", i, pos, b, v.Name}, vals)
					n++
				}
			}
		}
		for _, ver := range []int{0, 1, 6, 9, 10, 255, 256, 262, 265, 65535} {
			c11uRun(c11uCase{"version", i, 0, ver, v.Name}, vals)
			n++
		}
		for cut := 0; cut < 10; cut++ {
			c11uRun(c11uCase{"trunc", i, cut, 0, v.Name}, vals)
			n++
		}
		ev.Nontrivial(ev.HashS(v.Name + fmt.Sprint(i)))
	}
	ev.Eval(n)
	ev.Trace(n)
	ev.Trans(n)
	ev.StatesAdd(n)
	ev.Sample("payload-version", map[string]interface{}{"value": vals[0].Name, "version": 262, "sealed": true})
}
