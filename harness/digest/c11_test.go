// C11 (part a): the CRC-64 implementation digest against a bit-at-a-time reference.
package digest

import (
	"encoding/binary"
	"encoding/hex"
	"fmt"
	"hash"
	"testing"

	"github.com/alibaba/RedisShake/verifrt/crcref"
	"github.com/alibaba/RedisShake/verifrt/ev"
)

func c11Sum(chunks [][]byte) (uint64, []byte, hash.Hash64) {
	h := New()
	for _, c := range chunks {
		n, err := h.Write(c)
		if n != len(c) || err != nil {
			return 0, nil, h
		}
	}
	return h.Sum64(), h.Sum([]byte{0xaa}), h
}

func c11Check(sub string, data []byte, chunks [][]byte) {
	want := crcref.CRC64(0, data)
	got, sum, h := c11Sum(chunks)
	rep := map[string]interface{}{"sub": sub, "data_hex": hex.EncodeToString(data), "chunks": len(chunks)}
	if got != want {
		ev.Violate("C11|digest-crc", fmt.Sprintf("digest: CRC-64 of %x written in %d chunks is %016x, reference says %016x", data, len(chunks), got, want), rep)
		return
	}
	if len(sum) != 9 || sum[0] != 0xaa || binary.LittleEndian.Uint64(sum[1:]) != want {
		ev.Violate("C11|digest-sum", fmt.Sprintf("digest: Sum() of %x is %x, expected the little-endian CRC %016x appended", data, sum, want), rep)
	}
	h.Reset()
	h.Write(data)
	if h.Sum64() != want {
		ev.Violate("C11|digest-reset", fmt.Sprintf("digest: after Reset the CRC of %x is %016x, expected %016x", data, h.Sum64(), want), rep)
	}
}

func TestVerif_C11A(t *testing.T) {
	defer ev.Flush("C11")
	if !crcref.SelfCheck() {
		t.Fatal("reference CRC self check failed")
	}
	if ev.ReplayFile() != "" {
		var rp map[string]interface{}
		if err := ev.LoadReplay(&rp); err != nil {
			t.Fatal(err)
		}
		d, _ := hex.DecodeString(rp["data_hex"].(string))
		c11Check("replay", d, [][]byte{d})
		if len(d) > 1 {
			c11Check("replay", d, [][]byte{d[:1], d[1:]})
		}
		return
	}
	si, _ := ev.ShardInfo()
	if si != 0 {
		return
	}
	var n int64
	c11Check("empty", nil, nil)
	c11Check("check-value", []byte("123456789"), [][]byte{[]byte("123456789")})
	if crcref.CRC64(0, []byte("123456789")) != 0xe9c6d914c4b8d9ca {
		t.Fatal("reference")
	}
	// every 1- and 2-byte input: with a table-driven byte-wise update this pins every table entry
	// and the shift/xor structure
	for a := 0; a < 256; a++ {
		c11Check("1byte", []byte{byte(a)}, [][]byte{{byte(a)}})
		n++
		for b := 0; b < 256; b++ {
			d := []byte{byte(a), byte(b)}
			c11Check("2byte", d, [][]byte{d})
			c11Check("2byte-split", d, [][]byte{d[:1], d[1:]})
			n += 2
		}
	}
	// every string up to length 6 over {00,01,80,ff}
	sig := []byte{0x00, 0x01, 0x80, 0xff}
	buf := make([]byte, 0, 6)
	var rec func(int)
	rec = func(depth int) {
		c11Check("small-alphabet", buf, [][]byte{buf})
		n++
		if depth == 6 {
			return
		}
		for _, c := range sig {
			buf = append(buf, c)
			rec(depth + 1)
			buf = buf[:len(buf)-1]
		}
	}
	rec(0)
	// every chunking into at most 3 writes of position-coded strings
	for _, L := range []int{3, 9, 17, 64, 300} {
		d := make([]byte, L)
		for i := range d {
			d[i] = byte(i*31 + 7)
		}
		for i := 0; i <= L; i++ {
			for j := i; j <= L; j++ {
				c11Check("chunking", d, [][]byte{d[:i], d[i:j], d[j:]})
				n++
			}
		}
	}
	ev.Eval(n)
	ev.Trace(n)
	ev.Trans(n)
	ev.StatesAdd(n)
	ev.NontrivialAdd(n)
	ev.Sample("digest-digest", map[string]interface{}{"data": "123456789", "crc64": "e9c6d914c4b8d9ca"})
}
