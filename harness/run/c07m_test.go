// C07 (restore mode, whole command): CmdRestore.Main with several input files and fewer /
// as many / more file-level workers than files. When Main returns every key of every file is on
// the target exactly once. Free-running (the file-level pool is plain goroutines + WaitGroup);
// a run that does not return within 30 s is reported.
package run

import (
	"fmt"
	"io/ioutil"
	"net"
	"os"
	"path/filepath"
	"testing"
	"time"

	"github.com/alibaba/RedisShake/pkg/libs/log"
	conf "github.com/alibaba/RedisShake/redis-shake/configure"
	"github.com/alibaba/RedisShake/verifrt/ev"
	"github.com/alibaba/RedisShake/verifrt/hook"
	"github.com/alibaba/RedisShake/verifrt/memconn"
	"github.com/alibaba/RedisShake/verifrt/mredis"
	"github.com/alibaba/RedisShake/verifrt/rdbgen"
)

type c07mCase struct {
	Files       int `json:"files"`
	FileWorkers int `json:"source_rdb_parallel"`
	Parallel    int `json:"parallel"`
}

func c07mRun(c c07mCase) (kind, what string) {
	defer ev.Watch(fmt.Sprintf("whole restore command %+v", c), 150*time.Second, c)()
	dir := filepath.Join(os.Getenv("VERIF_SCRATCH"), fmt.Sprintf("c07m-%d", os.Getpid()))
	os.MkdirAll(dir, 0755)
	defer os.RemoveAll(dir)
	reg := mredis.NewRegistry()
	raw := func(s string) rdbgen.Str { return rdbgen.RawStr([]byte(s), rdbgen.LCanon) }
	type key struct {
		db   int
		name string
	}
	var all []key
	var inputs []string
	for f := 0; f < c.Files; f++ {
		var items []rdbgen.Item
		for d := 0; d < 2; d++ {
			items = append(items, rdbgen.SelectDB(uint32(d), rdbgen.LCanon))
			for k := 0; k < 2; k++ {
				name := fmt.Sprintf("f%d-d%d-k%d", f, d, k)
				v := rdbgen.StringVal(raw("v-" + name))
				reg.Add(v.Type, v.Raw, v.Log)
				items = append(items, rdbgen.Key(raw(name), v, rdbgen.KeyOpts{}))
				all = append(all, key{d, name})
			}
		}
		file, _ := rdbgen.File(9, items)
		p := filepath.Join(dir, fmt.Sprintf("in%d.rdb", f))
		ioutil.WriteFile(p, file, 0644)
		inputs = append(inputs, p)
	}
	kitCommon()
	conf.Options.Type = conf.TypeRestore
	conf.Options.SourceRdbInput = inputs
	conf.Options.SourceRdbParallel = c.FileWorkers
	conf.Options.Parallel = c.Parallel
	conf.Options.TargetAddressList = []string{"target:6379"}
	conf.Options.HttpProfile = -1
	conf.Options.ExtraInfo = false
	defer func() {
		conf.Options.SourceRdbInput = nil
		conf.Options.Type = ""
	}()
	srv := mredis.New(mredis.Options{Registry: reg})
	var opened []*memconn.Conn
	hook.SetDialHook(func(network, addr string) (net.Conn, error, bool) {
		cc, sc := memconn.Pair("target")
		opened = append(opened, sc)
		go srv.Serve(sc)
		return cc, nil, true
	})
	defer hook.SetDialHook(nil)
	aborted := make(chan struct{}, 16)
	hook.SetExitHook(func(int) { aborted <- struct{}{} })
	defer hook.SetExitHook(nil)
	done := make(chan struct{})
	go func() {
		defer close(done)
		(&CmdRestore{}).Main()
	}()
	select {
	case <-done:
	case <-aborted:
		return "abort", "restore aborts although every restore succeeds"
	case <-time.After(30 * time.Second):
		return "no-return", "CmdRestore.Main did not return within 30 s"
	}
	// judged at the moment Main returns
	count := map[string]int{}
	for _, a := range srv.Applied() {
		if a.Name() == "restore" {
			count[fmt.Sprintf("%d/%s", a.DB, a.Argv[1])]++
		}
	}
	for _, k := range all {
		id := fmt.Sprintf("%d/%s", k.db, k.name)
		if e := srv.Lookup(k.db, k.name); e == nil {
			return "key-missing", fmt.Sprintf("Main returned but key %s of db %d is not on the target (%d of %d keys restored)", k.name, k.db, len(count), len(all))
		}
		if count[id] != 1 {
			return "restore-count", fmt.Sprintf("key %s was restored %d times", id, count[id])
		}
	}
	return "", ""
}

// kitCommon: options every restore run needs (the other C07 cases get them from kit07.Case.Apply)
func kitCommon() {
	conf.Options.FilterDBWhitelist, conf.Options.FilterDBBlacklist = nil, nil
	conf.Options.FilterKeyWhitelist, conf.Options.FilterKeyBlacklist = nil, nil
	conf.Options.FilterSlot = nil
	conf.Options.FilterLua = false
	conf.Options.TargetDB = -1
	conf.Options.Metric = true
	conf.Options.KeyExists = "none"
	conf.Options.TargetReplace = true
	conf.Options.BigKeyThreshold = 1 << 30
	conf.Options.TargetVersion = ""
	conf.Options.TargetType = "standalone"
	conf.Options.TargetAuthType = "auth"
	conf.Options.TargetPasswordRaw = ""
}

func TestVerif_C07M(t *testing.T) {
	defer ev.Flush("C07")
	log.SetLevel(log.LEVEL_NONE)
	if ev.ReplayFile() != "" {
		var c c07mCase
		if err := ev.LoadReplay(&c); err != nil {
			t.Fatal(err)
		}
		if c.Files == 0 {
			return
		}
		k, w := c07mRun(c)
		t.Logf("replay %+v -> %s %s", c, k, w)
		if k != "" {
			ev.Violate("C07|restore-main|"+k, w, c)
		}
		return
	}
	var n, idx int64
	for files := 1; files <= 4; files++ {
		for fw := 1; fw <= files+1; fw++ {
			for _, par := range []int{1, 3} {
				idx++
				if !ev.Mine(idx) {
					continue
				}
				c := c07mCase{files, fw, par}
				k, w := c07mRun(c)
				n++
				h := ev.HashS(fmt.Sprint(c))
				ev.State(h)
				if files > 1 {
					ev.Nontrivial(h)
				}
				ev.Outcome("restore-main:" + k)
				if k != "" {
					ev.Violate("C07|restore-main|"+k, fmt.Sprintf("%s (%d input files, source.rdb.parallel=%d, parallel=%d)", w, files, fw, par), c)
				}
			}
		}
	}
	ev.Eval(n)
	ev.Trace(n)
	ev.Trans(n)
}
