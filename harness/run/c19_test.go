// C19 (restore / rump / dump paths): configured passwords never appear in logs. The real
// dbRumper.run, dbRestorer.restore and dbDumper.dump open their own connections with the
// configured passwords against model peers that require them; the logger is captured.
package run

import (
	"bytes"
	"encoding/base64"
	"encoding/hex"
	"fmt"
	"io/ioutil"
	"net"
	"os"
	"path/filepath"
	"regexp"
	"sort"
	"strings"
	"sync"
	"testing"
	"testing/synctest"
	"time"

	"github.com/alibaba/RedisShake/pkg/libs/log"
	utils "github.com/alibaba/RedisShake/redis-shake/common"
	conf "github.com/alibaba/RedisShake/redis-shake/configure"
	"github.com/alibaba/RedisShake/verifrt/ev"
	"github.com/alibaba/RedisShake/verifrt/hook"
	"github.com/alibaba/RedisShake/verifrt/memconn"
	"github.com/alibaba/RedisShake/verifrt/mredis"
	"github.com/alibaba/RedisShake/verifrt/msource"
	"github.com/alibaba/RedisShake/verifrt/rdbgen"
)

const (
	c19rSrc = "SrcPw-7f3a9c21-Sentinel"
	c19rTgt = "TgtPw-b64e0d55-Sentinel"
)

type c19rCase struct {
	Path  string `json:"path"`
	Level string `json:"log_level"`
	Fault string `json:"fault"`
}

type c19rBuf struct {
	mu sync.Mutex
	b  bytes.Buffer
}

func (l *c19rBuf) Write(p []byte) (int, error) {
	l.mu.Lock()
	defer l.mu.Unlock()
	return l.b.Write(p)
}

func c19rLeaks(text string) []string {
	var out []string
	for name, pw := range map[string]string{"source": c19rSrc, "target": c19rTgt} {
		for f, s := range map[string]string{"plain": pw, "hex": hex.EncodeToString([]byte(pw)), "base64": base64.StdEncoding.EncodeToString([]byte(pw)),
			"bytes": strings.Trim(fmt.Sprint([]byte(pw)), "[]")} {
			if strings.Contains(text, s) {
				out = append(out, name+" password ("+f+")")
			}
		}
	}
	sort.Strings(out)
	return out
}

var c19rSiteRe = regexp.MustCompile(`([a-zA-Z_0-9]+\.go:\d+): \[[A-Z]+\]`)

func c19rRun(t *testing.T, c c19rCase) (leaks []string, sites map[string]bool) {
	sites = map[string]bool{}
	buf := &c19rBuf{}
	old := log.StdLog
	log.StdLog = log.New(buf, "")
	log.SetFlags(log.Lshortfile)
	defer func() { log.StdLog = old }()
	if c.Level == "debug" {
		log.SetLevel(log.LEVEL_DEBUG)
	} else {
		log.SetLevel(log.LEVEL_INFO)
	}
	conf.Options.SourcePasswordRaw, conf.Options.TargetPasswordRaw = c19rSrc, c19rTgt
	conf.Options.SourceAuthType, conf.Options.TargetAuthType = "auth", "auth"
	if c.Fault == "unknown-auth-type" {
		conf.Options.SourceAuthType, conf.Options.TargetAuthType = "adminauth", "adminauth"
	}
	conf.Options.SourceAddressList, conf.Options.TargetAddressList = []string{"src:6379"}, []string{"tgt:6379"}
	conf.Options.TargetType, conf.Options.SourceType = "standalone", "standalone"
	conf.Options.Parallel = 2
	conf.Options.KeyExists = "rewrite"
	conf.Options.TargetReplace = true
	conf.Options.BigKeyThreshold = 40
	conf.Options.ScanKeyNumber = 2
	conf.Options.ScanKeyFile, conf.Options.ScanSpecialCloud = "", ""
	conf.Options.Qps = 1000
	conf.Options.TargetDB = -1
	conf.Options.Metric = true
	conf.Options.ExtraInfo = false
	conf.Options.Type = c.Path
	conf.Options.FilterKeyWhitelist, conf.Options.FilterKeyBlacklist, conf.Options.FilterDBWhitelist, conf.Options.FilterDBBlacklist = nil, nil, nil, nil
	defer func() { conf.Options.SourcePasswordRaw, conf.Options.TargetPasswordRaw = "", "" }()
	hook.SetExitHook(func(int) {})
	defer hook.SetExitHook(nil)
	defer hook.SetDialHook(nil)
	reg := mredis.NewRegistry()
	v := rdbgen.StringVal(rdbgen.RawStr([]byte("v1"), rdbgen.LCanon))
	reg.Add(v.Type, v.Raw, v.Log)
	rdbFile, _ := rdbgen.File(9, []rdbgen.Item{rdbgen.SelectDB(1, rdbgen.LCanon), rdbgen.Key(rdbgen.RawStr([]byte("k1"), rdbgen.LCanon), v, rdbgen.KeyOpts{})})
	dir := os.Getenv("VERIF_SCRATCH")
	in := filepath.Join(dir, fmt.Sprintf("c19-%d.rdb", os.Getpid()))
	outp := filepath.Join(dir, fmt.Sprintf("c19-%d.out", os.Getpid()))
	ioutil.WriteFile(in, rdbFile, 0644)
	defer os.Remove(in)
	defer os.Remove(outp)
	func() {
		defer func() { recover() }()
		synctest.Test(t, func(t *testing.T) {
			m := msource.New()
			m.Password = c19rSrc
			var unk map[string]bool
			if c.Fault == "unknown-auth-type" {
				unk = map[string]bool{"adminauth": true}
			}
			m.Unknown = unk
			src := mredis.New(mredis.Options{Registry: reg, Password: c19rSrc, Unknown: unk})
			tpw := c19rTgt
			if c.Fault == "bad-target-password" {
				tpw = "something-else"
			}
			restores := 0
			topt := mredis.Options{Registry: reg, Password: tpw, Unknown: unk}
			topt.ReplyHook = func(cmd mredis.Cmd) []byte {
				if cmd.Name() == "restore" {
					restores++
					if c.Fault == "target-error" && restores == 1 {
						return []byte("-ERR injected failure\r\n")
					}
				}
				return nil
			}
			dst := mredis.New(topt)
			src.Put(0, "pa", &mredis.Entry{Kind: "string", Str: []byte("v")})
			src.Put(1, "pl", &mredis.Entry{Kind: "list", List: [][]byte{[]byte("abcdefghijklmnopqrstuvwxyz0123456789"), []byte("b")}})
			hook.SetDialHook(func(network, addr string) (net.Conn, error, bool) {
				cc, sc := memconn.Pair(addr)
				switch {
				case strings.HasPrefix(addr, "tgt"):
					go dst.Serve(sc)
				case c.Path == conf.TypeDump:
					go m.Serve(sc)
				default:
					go src.Serve(sc)
				}
				return cc, nil, true
			})
			switch c.Path {
			case conf.TypeRump:
				go (&dbRumper{id: 0, address: "src:6379"}).run()
			case conf.TypeRestore:
				go (&dbRestorer{id: 0, input: in, target: []string{"tgt:6379"}, targetPassword: c19rTgt}).restore()
			case conf.TypeDump:
				go (&dbDumper{id: 0, source: "src:6379", sourcePassword: c19rSrc, output: outp}).dump()
			}
			for i := 0; i < 6; i++ {
				synctest.Wait()
				if c.Path == conf.TypeDump && i == 1 && m.NumConns() > 0 {
					m.Conn(-1).Write([]byte(fmt.Sprintf("\n$%d\r\n", len(rdbFile))))
					m.Conn(-1).Write(rdbFile)
				}
				time.Sleep(time.Second)
			}
			synctest.Wait()
		})
	}()
	buf.mu.Lock()
	text := buf.b.String()
	buf.mu.Unlock()
	for _, mm := range c19rSiteRe.FindAllStringSubmatch(text, -1) {
		sites[mm[1]] = true
	}
	for _, line := range strings.Split(text, "\n") {
		if l := c19rLeaks(line); len(l) > 0 {
			if len(line) > 260 {
				line = line[:260] + "..."
			}
			leaks = append(leaks, strings.Join(l, ", ")+" in: "+line)
		}
	}
	_ = utils.StartTime
	return
}

func TestVerif_C19R(t *testing.T) {
	defer ev.Flush("C19")
	if ev.ReplayFile() != "" {
		var c c19rCase
		if err := ev.LoadReplay(&c); err != nil || c.Path == "" {
			return
		}
		leaks, sites := c19rRun(t, c)
		t.Logf("replay %+v: %d call sites, leaks %v", c, len(sites), leaks)
		for _, l := range leaks {
			ev.Violate("C19|"+c.Path+"|leak", l, c)
		}
		return
	}
	var n, idx int64
	all := map[string]bool{}
	for _, path := range []string{conf.TypeRump, conf.TypeRestore, conf.TypeDump} {
		for _, level := range []string{"debug", "info"} {
			for _, fault := range []string{"", "target-error", "bad-target-password", "unknown-auth-type"} {
				idx++
				if !ev.Mine(idx) {
					continue
				}
				c := c19rCase{path, level, fault}
				leaks, sites := c19rRun(t, c)
				n++
				for s := range sites {
					all[s] = true
					ev.State(ev.HashS(s))
				}
				for _, l := range leaks {
					site := "other"
					if m := c19rSiteRe.FindStringSubmatch(l); m != nil {
						site = m[1][:strings.Index(m[1], ":")]
					}
					ev.Violate("C19|"+path+"|"+site, fmt.Sprintf("%s (scenario %+v)", l, c), c)
				}
				ev.Nontrivial(ev.HashS(fmt.Sprint(c)))
				ev.Outcome(fmt.Sprintf("%s:leaks=%d", path, len(leaks)))
			}
		}
	}
	var sl []string
	for s := range all {
		sl = append(sl, s)
	}
	sort.Strings(sl)
	ev.Sample("log-call-sites-fired-run-package", sl)
	ev.Eval(n)
	ev.Trace(n)
	ev.Trans(n * 6)
}
