// C07 (restore mode): the real restoreRDBFile with N workers against one held-request model
// target (shared code: engine/kit07). Unexported identifiers used: dbRestorer{id,target}, restoreRDBFile.
package run

import (
	"bufio"
	"bytes"
	"testing"

	"github.com/alibaba/RedisShake/verifrt/kit07"
)

func TestVerif_C07R(t *testing.T) {
	kit07.Main(t, "restore", func(c kit07.Case, file []byte, report func(error)) {
		dr := &dbRestorer{id: 0, target: []string{"target:6379"}}
		dr.restoreRDBFile(bufio.NewReaderSize(bytes.NewReader(file), 4096), dr.target, "auth", "", int64(len(file)), false)
		report(nil)
	})
}

func TestVerif_C07RRace(t *testing.T) {
	kit07.RaceMain(t, "restore", func(c kit07.Case, file []byte, report func(error)) {
		dr := &dbRestorer{id: 0, target: []string{"target:6379"}}
		dr.restoreRDBFile(bufio.NewReaderSize(bytes.NewReader(file), 4096), dr.target, "auth", "", int64(len(file)), false)
		report(nil)
	})
}
