// C16: scan-based migration (rump) copies every scanned key faithfully. Package run.
// The real executor (fetcher, writer, receiver, scanner, big-key split, QoS) runs against a
// model source with scripted SCAN pagination and vanishing keys and a model target.
// Unexported identifiers used: NewDbRumperExecutor(...).exec.
package run

import (
	"fmt"
	"io/ioutil"
	"os"
	"path/filepath"
	"sort"
	"strings"
	"sync"
	"testing"
	"testing/synctest"
	"time"

	"github.com/alibaba/RedisShake/pkg/libs/log"
	conf "github.com/alibaba/RedisShake/redis-shake/configure"
	"github.com/alibaba/RedisShake/verifrt/ev"
	"github.com/alibaba/RedisShake/verifrt/hook"
	"github.com/alibaba/RedisShake/verifrt/memconn"
	"github.com/alibaba/RedisShake/verifrt/mredis"
	redigo "github.com/garyburd/redigo/redis"
)

type c16Key struct {
	DB   int    `json:"db"`
	Name string `json:"name"`
	Kind string `json:"kind"`   // string list hash
	TTL  int64  `json:"ttl_ms"` // 0: none
}

type c16Case struct {
	Keys      []c16Key `json:"keys"`
	Pages     [][]int  `json:"pages"` // page sizes per database index (sorted db order); 0 = empty page
	ScanCount uint32   `json:"scan_key_number"`
	Threshold uint64   `json:"big_key_threshold"`
	KeyExists string   `json:"key_exists"`
	Pre       string   `json:"preexisting"` // "", name of a key that already exists on the target
	TargetDB  int      `json:"target_db"`
	Filter    string   `json:"filter"`               // "", "key-white-p", "db-black-1"
	Vanish    string   `json:"vanish"`               // "", "<db>/<key>@dump", "<db>/<key>@pttl"
	KeyFile   int      `json:"key_file_lines"`       // -1: SCAN mode; n: key file with the first n keys of db 0 (+ missing ones)
	Blank     int      `json:"blank_line,omitempty"` // key file: 0 none, k: an empty line in front of line k-1 (k-1 = n: at the end)
	// BigFile: the key file is longer than the line scanner's 4 KiB buffer: 1200 lines naming absent
	// keys with the real keys at lines BigFile.. (0: ordinary small file)
	BigFile int `json:"big_key_file_first_real_line,omitempty"`
	// Qps: the configured rate limit (0: 1000, never reached); SlowScan k>0: the source answers the
	// k-th SCAN page of the first database only after 3 s without traffic (several refill ticks of
	// the rate limiter pass while its bucket is full)
	Qps      int `json:"qps,omitempty"`
	SlowScan int `json:"slow_scan_page,omitempty"`
	// RefuseSelect n>0: the target answers SELECT n with "-ERR DB index is out of range" (it is
	// configured with fewer databases than the source)
	RefuseSelect int `json:"target_refuses_select,omitempty"`
}

func c16Entry(k c16Key) *mredis.Entry {
	switch k.Kind {
	case "list":
		return &mredis.Entry{Kind: "list", List: [][]byte{[]byte("l1-" + k.Name), []byte("l2"), []byte("l3-abcdefghijklmnopqrstuvwxyz")}}
	case "hash":
		return &mredis.Entry{Kind: "hash", Hash: map[string][]byte{"f1": []byte("v-" + k.Name), "f2": []byte("abcdefghijklmnopqrstuvwxyz")}, HashOrd: []string{"f1", "f2"}}
	case "zset":
		// dumped in the skiplist form with binary scores, as a current server does
		return &mredis.Entry{Kind: "zset", ZSet: map[string]float64{"m-" + k.Name: 1.5, "m2-abcdefghijklmnopqrstuvwxyz": -2, "m3": 1e10}}
	case "set":
		return &mredis.Entry{Kind: "set", Set: map[string]bool{"s-" + k.Name: true, "s2-abcdefghijklmnopqrstuvwxyz": true}}
	}
	return &mredis.Entry{Kind: "string", Str: []byte("v-" + k.Name)}
}

func (c c16Case) apply(keyfile string) {
	conf.Options.ScanKeyNumber = c.ScanCount
	conf.Options.BigKeyThreshold = c.Threshold
	conf.Options.KeyExists = c.KeyExists
	conf.Options.TargetDB = c.TargetDB
	conf.Options.TargetReplace = true
	conf.Options.TargetVersion = ""
	conf.Options.Qps = 1000
	if c.Qps > 0 {
		conf.Options.Qps = c.Qps
	}
	conf.Options.ScanSpecialCloud = ""
	conf.Options.ScanKeyFile = keyfile
	conf.Options.Metric = true
	conf.Options.FilterKeyWhitelist, conf.Options.FilterKeyBlacklist = nil, nil
	conf.Options.FilterDBWhitelist, conf.Options.FilterDBBlacklist = nil, nil
	conf.Options.FilterLua = false
	conf.Options.ReplaceHashTag = false
	conf.Options.ShiftTime = 0
	switch c.Filter {
	case "key-white-p":
		conf.Options.FilterKeyWhitelist = []string{"p"}
	case "db-black-1":
		conf.Options.FilterDBBlacklist = []string{"1"}
	}
}

func (c c16Case) passes(k c16Key) bool {
	switch c.Filter {
	case "key-white-p":
		return strings.HasPrefix(k.Name, "p")
	case "db-black-1":
		return k.DB != 1
	}
	return true
}

func c16Run(t *testing.T, c c16Case) (kind, what string) {
	keyfile := ""
	if c.KeyFile >= 0 {
		keyfile = filepath.Join(os.Getenv("VERIF_SCRATCH"), fmt.Sprintf("c16keys-%d.txt", os.Getpid()))
		var lines []string
		for i := 0; i < c.KeyFile; i++ {
			if c.Blank == i+1 {
				lines = append(lines, "")
			}
			if i < len(c.Keys) {
				lines = append(lines, c.Keys[i].Name)
			} else {
				lines = append(lines, fmt.Sprintf("missing%d", i))
			}
		}
		if c.Blank == c.KeyFile+1 {
			lines = append(lines, "")
		}
		if c.BigFile > 0 {
			lines = nil
			k := 0
			for i := 0; i < 1200; i++ {
				if i >= c.BigFile && k < c.KeyFile && k < len(c.Keys) {
					lines = append(lines, c.Keys[k].Name)
					k++
				} else {
					lines = append(lines, fmt.Sprintf("missing%04d", i))
				}
			}
		}
		body := strings.Join(lines, "\n")
		if len(lines) > 0 {
			body += "\n"
		}
		ioutil.WriteFile(keyfile, []byte(body), 0644)
		defer os.Remove(keyfile)
	}
	c.apply(keyfile)
	var mu sync.Mutex
	aborted := false
	hook.SetExitHook(func(int) {
		mu.Lock()
		aborted = true
		mu.Unlock()
	})
	defer hook.SetExitHook(nil)
	bad := func(k, w string) {
		if kind == "" {
			kind, what = k, w
		}
	}
	func() {
		defer func() {
			if x := recover(); x != nil && !strings.Contains(fmt.Sprint(x), "blocked goroutines remain") {
				bad("harness-bubble", fmt.Sprint(x))
			}
		}()
		synctest.Test(t, func(t *testing.T) {
			reg := mredis.NewRegistry()
			nowMs := func() int64 { return time.Now().UnixNano() / int64(time.Millisecond) }
			start := nowMs()
			// source
			pttlAt := map[string]int64{}
			restoreAt := map[string]int64{}
			var src *mredis.Server
			srcOpt := mredis.Options{Registry: reg}
			srcOpt.ReplyHook = func(cmd mredis.Cmd) []byte {
				n := cmd.Name()
				if (n == "dump" || n == "pttl") && c.Vanish == fmt.Sprintf("%d/%s@%s", cmd.DB, cmd.Argv[1], n) {
					src.Del(cmd.DB, string(cmd.Argv[1]))
				}
				if n == "pttl" {
					pttlAt[fmt.Sprintf("%d/%s", cmd.DB, cmd.Argv[1])] = nowMs()
				}
				return nil
			}
			src = mredis.New(srcOpt)
			dbs := map[int][]string{}
			for _, k := range c.Keys {
				e := c16Entry(k)
				if k.TTL > 0 {
					e.ExpireAt = start + k.TTL
				}
				src.Put(k.DB, k.Name, e)
				dbs[k.DB] = append(dbs[k.DB], k.Name)
			}
			var dbIds []int
			for d := range dbs {
				sort.Strings(dbs[d])
				dbIds = append(dbIds, d)
			}
			sort.Ints(dbIds)
			// pagination script: pages[dbIndex] = page sizes; cursor value 1000*(page index+1)
			src.SetScanHook(func(db int, cursor string) (string, []string, bool) {
				di := sort.SearchInts(dbIds, db)
				if di >= len(dbIds) || dbIds[di] != db || di >= len(c.Pages) {
					return "", nil, false
				}
				sizes := c.Pages[di]
				pi := 0
				if cursor != "0" {
					fmt.Sscanf(cursor, "%d", &pi)
					pi /= 1000
				}
				if c.SlowScan > 0 && di == 0 && pi == c.SlowScan {
					time.Sleep(3 * time.Second)
				}
				off := 0
				for i := 0; i < pi && i < len(sizes); i++ {
					off += sizes[i]
				}
				keys := dbs[db]
				var page []string
				if pi < len(sizes) {
					end := off + sizes[pi]
					if end > len(keys) {
						end = len(keys)
					}
					if off < end {
						page = keys[off:end]
					}
				}
				next := "0"
				if pi+1 < len(sizes) {
					next = fmt.Sprint(1000 * (pi + 1))
				}
				return next, page, true
			})
			// target
			dstOpt := mredis.Options{Registry: reg}
			var dst *mredis.Server
			selectRefused := false
			dstOpt.ReplyHook = func(cmd mredis.Cmd) []byte {
				if cmd.Name() == "select" && c.RefuseSelect > 0 && len(cmd.Argv) == 2 && string(cmd.Argv[1]) == fmt.Sprint(c.RefuseSelect) {
					selectRefused = true
					return []byte("-ERR DB index is out of range\r\n")
				}
				if cmd.Name() == "restore" {
					restoreAt[fmt.Sprintf("%d/%s", cmd.DB, cmd.Argv[1])] = nowMs()
				}
				return nil
			}
			dst = mredis.New(dstOpt)
			preDB := 0
			if c.Pre != "" {
				for _, k := range c.Keys {
					if k.Name == c.Pre {
						preDB = k.DB
						break
					}
				}
				if c.TargetDB != -1 {
					preDB = c.TargetDB
				}
				old := c16Entry(c16Key{Name: "OLD", Kind: "string"})
				for _, k := range c.Keys {
					if k.Name == c.Pre {
						old = c16Entry(c16Key{Name: "OLD", Kind: k.Kind})
						break
					}
				}
				dst.Put(preDB, c.Pre, old)
			}
			conn := func(s *mredis.Server, name string) redigo.Conn {
				cc, sc := memconn.Pair(name)
				go s.Serve(sc)
				return redigo.NewConn(cc, 0, 0)
			}
			exe := NewDbRumperExecutor(0, 0, conn(src, "source"), conn(dst, "target"), conn(dst, "target-bigkey"), "")
			returned := false
			go func() {
				exe.exec()
				mu.Lock()
				returned = true
				mu.Unlock()
			}()
			for i := 0; i < 40; i++ {
				synctest.Wait()
				mu.Lock()
				done := returned || aborted
				mu.Unlock()
				if done {
					break
				}
				time.Sleep(time.Second)
			}
			synctest.Wait()
			mu.Lock()
			rt, ab := returned, aborted
			mu.Unlock()
			busyNone := false
			if c.Pre != "" && c.KeyExists != "rewrite" {
				for _, k := range c.Keys {
					if k.Name == c.Pre && c.passes(k) && c.Vanish != fmt.Sprintf("%d/%s@dump", k.DB, k.Name) && c.Vanish != fmt.Sprintf("%d/%s@pttl", k.DB, k.Name) && (c.KeyFile < 0 || k.DB == 0) {
						busyNone = true
					}
				}
			}
			switch {
			case busyNone:
				// key_exists=none and the key is busy: stopping with an error is the documented outcome
				if rt && !ab {
					if e := dst.Lookup(preDB, c.Pre); e == nil || !strings.Contains(e.Canon(), "OLD") || strings.Contains(e.Canon(), "v-"+c.Pre) || strings.Contains(e.Canon(), "l1-"+c.Pre) {
						bad("busy-key-overwritten", fmt.Sprintf("key_exists=none: the existing target key %s was changed and no error was raised", c.Pre))
					}
				}
			case selectRefused:
				// the target has no such database: the keys of that database cannot be copied, the run
				// must say so instead of finishing as if everything were in place
				if rt && !ab {
					bad("select-refusal-ignored", fmt.Sprintf("the target answered SELECT %d with an error, rump finishes without reporting anything", c.RefuseSelect))
				}
			case ab:
				bad("abort", "rump aborts although nothing is wrong with the source or the target")
			case !rt:
				bad("no-termination", "rump did not finish within 40 s after the last scan page")
			default:
				for _, k := range c.Keys {
					tdb := k.DB
					if c.TargetDB != -1 {
						tdb = c.TargetDB
					}
					id := fmt.Sprintf("%d/%s", k.DB, k.Name)
					tid := fmt.Sprintf("%d/%s", tdb, k.Name)
					got := dst.Lookup(tdb, k.Name)
					vanished := c.Vanish == id+"@dump" || c.Vanish == id+"@pttl"
					inFile := c.KeyFile < 0
					if c.KeyFile >= 0 {
						for i := 0; i < c.KeyFile && i < len(c.Keys); i++ {
							if c.Keys[i] == k && k.DB == 0 {
								inFile = true
							}
						}
					}
					if !c.passes(k) || vanished || !inFile {
						if got != nil && !(c.Pre == k.Name) {
							switch {
							case !c.passes(k):
								bad("filtered-key-copied", fmt.Sprintf("key %s of db %d is excluded by filter %s but exists on the target", k.Name, k.DB, c.Filter))
							case c.Vanish == id+"@dump" && inFile:
								// DUMP answered nil: there is nothing that could have been copied
								bad("vanished-key-copied", fmt.Sprintf("key %s of db %d vanished before its DUMP but exists on the target as %s", k.Name, k.DB, got.Canon()))
							case c.Vanish == id+"@pttl" && inFile && k.TTL > 0 && got.ExpireAt == 0:
								// dumped, then gone when PTTL was asked (-2): copying the dumped value is
								// defensible, but an expiring key must not become a persistent one
								bad("expired-key-made-persistent", fmt.Sprintf("key %s of db %d (expiring on the source) was gone when its PTTL was asked and now exists on the target without expiry", k.Name, k.DB))
							}
						}
						continue
					}
					want := c16Entry(k)
					if got == nil {
						bad("key-missing", fmt.Sprintf("key %s of db %d is missing in target db %d", k.Name, k.DB, tdb))
						continue
					}
					gc, wc := *got, *want
					gc.ExpireAt, wc.ExpireAt = 0, 0
					if gc.Canon() != wc.Canon() {
						bad("value", fmt.Sprintf("key %s of db %d: target holds %s, source holds %s", k.Name, k.DB, gc.Canon(), wc.Canon()))
						continue
					}
					if k.TTL == 0 {
						if got.ExpireAt != 0 {
							bad("ttl-invented", fmt.Sprintf("key %s has no expiry on the source but expires on the target", k.Name))
						}
						continue
					}
					if got.ExpireAt == 0 {
						bad("ttl-lost", fmt.Sprintf("key %s expires on the source (%d ms left) but not on the target", k.Name, k.TTL))
						continue
					}
					// remaining TTL at restore time must be the PTTL answer: source expiry minus time of the PTTL
					p := start + k.TTL - pttlAt[id]
					ra, ok := restoreAt[tid]
					if ok && got.ExpireAt != ra+p {
						bad("ttl-wrong", fmt.Sprintf("key %s: source answered PTTL %d, target key expires %d ms after its RESTORE", k.Name, p, got.ExpireAt-ra))
					} else if !ok && (got.ExpireAt < start+k.TTL-1 || got.ExpireAt > start+k.TTL+40000) {
						bad("ttl-wrong", fmt.Sprintf("key %s: big key expiry %d, source expiry %d", k.Name, got.ExpireAt, start+k.TTL))
					}
				}
			}
		})
	}()
	return
}

func c16Compositions(k int) [][]int {
	if k == 0 {
		return [][]int{{0}}
	}
	var out [][]int
	var rec func(rest int, cur []int)
	rec = func(rest int, cur []int) {
		if rest == 0 {
			out = append(out, append([]int{}, cur...))
			return
		}
		for s := 1; s <= rest && s <= 3; s++ {
			rec(rest-s, append(cur, s))
		}
	}
	rec(k, nil)
	// empty pages at the start, in the middle, at the end
	base := append([][]int{}, out...)
	for _, b := range base {
		out = append(out, append([]int{0}, b...))
		out = append(out, append(append([]int{}, b...), 0))
		if len(b) > 1 {
			m := append(append(append([]int{}, b[:1]...), 0), b[1:]...)
			out = append(out, m)
		}
	}
	return out
}

func TestVerif_C16(t *testing.T) {
	defer ev.Flush("C16")
	log.SetLevel(log.LEVEL_NONE)
	if ev.ReplayFile() != "" {
		var c c16Case
		if err := ev.LoadReplay(&c); err != nil {
			t.Fatal(err)
		}
		for i := 0; i < 2; i++ {
			k, w := c16Run(t, c)
			t.Logf("replay %+v -> %s %s", c, k, w)
			if k != "" {
				ev.Violate("C16|"+k, w, c)
			}
		}
		return
	}
	keyspaces := [][]c16Key{
		{{0, "pa", "string", 0}, {0, "pb", "list", 50000}, {0, "qc", "hash", 0}},
		{{0, "pa", "string", 50000}, {0, "pb", "hash", 0}, {1, "pa", "list", 0}, {1, "qd", "string", 70000}},
		{{0, "pa", "string", 0}, {0, "pb", "string", 50000}, {0, "pc", "list", 0}, {0, "pd", "string", 0}, {12, "pe", "hash", 90000}},
		{{0, "pz", "zset", 0}, {0, "ps", "set", 60000}, {1, "pz", "zset", 30000}},
	}
	var n, idx int64
	capped := false
	run := func(c c16Case) {
		idx++
		if capped || !ev.Mine(idx) {
			return
		}
		if idx%64 == 0 && ev.OverBudget() {
			capped = true
			ev.Cap("time budget")
			return
		}
		k, w := c16Run(t, c)
		n++
		if k != "" {
			big := "small"
			if c.Threshold < 1000 {
				big = "bigkey"
			}
			pre := "fresh"
			if c.Pre != "" {
				pre = "preexisting"
			}
			ev.Violate("C16|"+k+"|"+big+"|"+c.KeyExists+"|"+pre, fmt.Sprintf("%s (case %+v)", w, c), c)
			ev.Outcome(k)
		} else {
			ev.Outcome("ok")
		}
		h := ev.HashS(fmt.Sprint(c))
		ev.State(h)
		ev.Nontrivial(h)
		if n%3000 == 1 {
			ev.Sample("rump", c)
		}
	}
	for _, keys := range keyspaces {
		perDB := map[int]int{}
		var dbIds []int
		for _, k := range keys {
			if perDB[k.DB] == 0 {
				dbIds = append(dbIds, k.DB)
			}
			perDB[k.DB]++
		}
		sort.Ints(dbIds)
		// paginations: every composition for the first database, one page for the others (and the reverse)
		var pagings [][][]int
		for _, comp := range c16Compositions(perDB[dbIds[0]]) {
			p := [][]int{comp}
			for _, d := range dbIds[1:] {
				p = append(p, []int{perDB[d]})
			}
			pagings = append(pagings, p)
		}
		if len(dbIds) > 1 {
			for _, comp := range c16Compositions(perDB[dbIds[1]]) {
				p := [][]int{{perDB[dbIds[0]]}, comp}
				for _, d := range dbIds[2:] {
					p = append(p, []int{perDB[d]})
				}
				pagings = append(pagings, p)
			}
		}
		vanishes := []string{""}
		for _, k := range keys {
			vanishes = append(vanishes, fmt.Sprintf("%d/%s@dump", k.DB, k.Name), fmt.Sprintf("%d/%s@pttl", k.DB, k.Name))
		}
		for pi, pages := range pagings {
			for _, sc := range []uint32{1, 2, 3} {
				for _, thr := range []uint64{1 << 30, 40} {
					for _, tdb := range []int{-1, 3} {
						if tdb == 3 && len(dbIds) > 1 && keys[0].Name == keys[2].Name {
							continue
						}
						for _, flt := range []string{"", "key-white-p", "db-black-1"} {
							for _, pol := range []string{"none", "rewrite"} {
								for _, pre := range []string{"", keys[1].Name} {
									for vi, van := range vanishes {
										// the full product is too large for the quick tier: vanish and pre-existing keys are crossed with a diagonal of paginations
										if !ev.Thorough() && (vi > 0 || pre != "") && (pi+int(sc)+vi)%4 != 0 {
											continue
										}
										if tdb == 3 {
											clash := false
											seen := map[string]bool{}
											for _, k := range keys {
												clash = clash || seen[k.Name]
												seen[k.Name] = true
											}
											if clash {
												continue
											}
										}
										run(c16Case{Keys: keys, Pages: pages, ScanCount: sc, Threshold: thr, KeyExists: pol, Pre: pre, TargetDB: tdb, Filter: flt, Vanish: van, KeyFile: -1})
									}
								}
							}
						}
					}
				}
			}
		}
	}
	// rate limit: qps 1 or 2 with a source that pauses before one of the later pages (the limiter's
	// bucket is full for several refill ticks, then more keys than the bucket holds arrive)
	for _, keys := range keyspaces {
		n0 := 0
		for _, k := range keys {
			if k.DB == keys[0].DB {
				n0++
			}
		}
		var rest [][]int
		perDB := map[int]int{}
		var dbIds []int
		for _, k := range keys {
			if perDB[k.DB] == 0 {
				dbIds = append(dbIds, k.DB)
			}
			perDB[k.DB]++
		}
		sort.Ints(dbIds)
		for _, d := range dbIds[1:] {
			rest = append(rest, []int{perDB[d]})
		}
		for _, comp := range c16Compositions(perDB[dbIds[0]]) {
			if len(comp) < 2 {
				continue
			}
			for slow := 1; slow < len(comp); slow++ {
				for _, qps := range []int{1, 2} {
					for _, sc := range []uint32{1, 3} {
						run(c16Case{Keys: keys, Pages: append([][]int{comp}, rest...), ScanCount: sc, Threshold: 1 << 30, KeyExists: "rewrite", TargetDB: -1, KeyFile: -1, Qps: qps, SlowScan: slow})
					}
				}
			}
		}
	}
	// a target with fewer databases than the source: SELECT of a later database is refused
	for _, keys := range keyspaces {
		perDB := map[int]int{}
		var dbIds []int
		for _, k := range keys {
			if perDB[k.DB] == 0 {
				dbIds = append(dbIds, k.DB)
			}
			perDB[k.DB]++
		}
		sort.Ints(dbIds)
		var pages [][]int
		for _, d := range dbIds {
			pages = append(pages, []int{perDB[d]})
		}
		for _, d := range dbIds {
			if d == 0 {
				continue
			}
			for _, sc := range []uint32{1, 3} {
				for _, thr := range []uint64{1 << 30, 40} {
					run(c16Case{Keys: keys, Pages: pages, ScanCount: sc, Threshold: thr, KeyExists: "rewrite", TargetDB: -1, KeyFile: -1, RefuseSelect: d})
				}
			}
		}
	}
	// key-file driven scans: one database, 0..2*page+1 lines
	kf := keyspaces[2][:4]
	for _, sc := range []uint32{1, 2, 3} {
		for lines := 0; lines <= 2*int(sc)+1 && lines <= 7; lines++ {
			for _, thr := range []uint64{1 << 30, 40} {
				// every position of one empty line (none, in front of each line, at the end)
				for blank := 0; blank <= lines+1; blank++ {
					run(c16Case{Keys: kf, ScanCount: sc, Threshold: thr, KeyExists: "none", TargetDB: -1, KeyFile: lines, Blank: blank})
				}
			}
		}
	}
	// key files longer than the scanner's buffer: the real keys sit at different distances from
	// the 4 KiB boundary, pages of 7 / 100 lines
	for _, first := range []int{1, 320, 330, 338, 341, 345, 420, 670, 683, 1196} {
		for _, sc := range []uint32{7, 100} {
			for _, thr := range []uint64{1 << 30, 40} {
				run(c16Case{Keys: kf, ScanCount: sc, Threshold: thr, KeyExists: "none", TargetDB: -1, KeyFile: 4, BigFile: first})
			}
		}
	}
	ev.Eval(n)
	ev.Trace(n)
	ev.Trans(n * 4)
}
