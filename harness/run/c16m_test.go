// C16 (whole command): CmdRump.Main over 1-3 source addresses, each with its own keyspace in
// two databases, into one target. When Main returns every key of every source is on the target
// with its value, in its database. Runs in a bubble.
package run

import (
	"fmt"
	"net"
	"strings"
	"testing"
	"testing/synctest"
	"time"

	"github.com/alibaba/RedisShake/pkg/libs/log"
	conf "github.com/alibaba/RedisShake/redis-shake/configure"
	"github.com/alibaba/RedisShake/verifrt/ev"
	"github.com/alibaba/RedisShake/verifrt/hook"
	"github.com/alibaba/RedisShake/verifrt/memconn"
	"github.com/alibaba/RedisShake/verifrt/mredis"
)

type c16mCase struct {
	Sources   int    `json:"sources"`
	ScanCount uint32 `json:"scan_count"`
	Threshold uint64 `json:"big_key_threshold"`
}

func c16mRun(t *testing.T, c c16mCase) (kind, what string) {
	defer ev.Watch(fmt.Sprintf("whole rump command %+v", c), 150*time.Second, c)()
	c16Case{ScanCount: c.ScanCount, Threshold: c.Threshold, KeyExists: "none", TargetDB: -1}.apply("")
	var addrs []string
	for i := 0; i < c.Sources; i++ {
		addrs = append(addrs, fmt.Sprintf("10.0.1.%d:6379", i+1))
	}
	conf.Options.SourceAddressList = addrs
	conf.Options.TargetAddressList = []string{"tgt:6379"}
	conf.Options.TargetType = "standalone"
	conf.Options.SourceAuthType, conf.Options.TargetAuthType = "auth", "auth"
	conf.Options.SourcePasswordRaw, conf.Options.TargetPasswordRaw = "", ""
	defer func() { conf.Options.SourceAddressList, conf.Options.TargetAddressList = nil, nil }()
	abort := false
	hook.SetExitHook(func(int) { abort = true })
	defer hook.SetExitHook(nil)
	defer hook.SetDialHook(nil)
	bad := func(k, w string) {
		if kind == "" {
			kind, what = k, w
		}
	}
	func() {
		defer func() {
			if x := recover(); x != nil && !strings.Contains(fmt.Sprint(x), "blocked goroutines remain") {
				bad("harness-bubble", fmt.Sprint(x))
			}
		}()
		synctest.Test(t, func(t *testing.T) {
			reg := mredis.NewRegistry()
			dst := mredis.New(mredis.Options{Registry: reg})
			srcs := map[string]*mredis.Server{}
			type key struct {
				db   int
				name string
				kind string
			}
			var all []key
			for i, a := range addrs {
				s := mredis.New(mredis.Options{Registry: reg})
				srcs[a] = s
				for d := 0; d < 2; d++ {
					for k := 0; k < 3; k++ {
						ck := c16Key{DB: d, Name: fmt.Sprintf("s%d-d%d-k%d", i, d, k), Kind: []string{"string", "list", "hash"}[k]}
						s.Put(d, ck.Name, c16Entry(ck))
						all = append(all, key{d, ck.Name, ck.Kind})
					}
				}
			}
			hook.SetDialHook(func(network, addr string) (net.Conn, error, bool) {
				cc, sc := memconn.Pair(addr)
				if s := srcs[addr]; s != nil {
					go s.Serve(sc)
				} else {
					go dst.Serve(sc)
				}
				return cc, nil, true
			})
			returned := false
			go func() {
				(&CmdRump{}).Main()
				returned = true
			}()
			for i := 0; i < 60 && !returned && !abort; i++ {
				synctest.Wait()
				time.Sleep(time.Second)
			}
			synctest.Wait()
			switch {
			case abort:
				bad("abort", "the rump command aborts although nothing is wrong")
			case !returned:
				bad("no-termination", "CmdRump.Main did not return within 60 s of the bubble's clock")
			}
			if kind == "" {
				for _, k := range all {
					got := dst.Lookup(k.db, k.name)
					want := c16Entry(c16Key{DB: k.db, Name: k.name, Kind: k.kind})
					if got == nil {
						bad("key-missing", fmt.Sprintf("Main returned but key %s of db %d is not on the target", k.name, k.db))
						break
					}
					if got.Canon() != want.Canon() {
						bad("value", fmt.Sprintf("key %s: target holds %s, source holds %s", k.name, got.Canon(), want.Canon()))
						break
					}
				}
			}
		})
	}()
	return
}

func TestVerif_C16M(t *testing.T) {
	defer ev.Flush("C16")
	log.SetLevel(log.LEVEL_NONE)
	if ev.ReplayFile() != "" {
		var c c16mCase
		if err := ev.LoadReplay(&c); err != nil {
			t.Fatal(err)
		}
		if c.Sources == 0 {
			return
		}
		k, w := c16mRun(t, c)
		t.Logf("replay %+v -> %s %s", c, k, w)
		if k != "" {
			ev.Violate("C16|rump-main|"+k, w, c)
		}
		return
	}
	var n, idx int64
	for src := 1; src <= 3; src++ {
		for _, sc := range []uint32{1, 4} {
			for _, thr := range []uint64{1 << 30, 40} {
				idx++
				if !ev.Mine(idx) {
					continue
				}
				c := c16mCase{src, sc, thr}
				k, what := c16mRun(t, c)
				n++
				h := ev.HashS(fmt.Sprint(c))
				ev.State(h)
				ev.Nontrivial(h)
				ev.Outcome("rump-main:" + k)
				if k != "" {
					ev.Violate("C16|rump-main|"+k, fmt.Sprintf("%s (%d sources, scan count %d, threshold %d)", what, src, sc, thr), c)
				}
			}
		}
	}
	ev.Eval(n)
	ev.Trace(n)
	ev.Trans(n)
}
