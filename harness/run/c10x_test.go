// C10 (the consumer of a file's command section): restore with extra=true decodes the RESP
// commands that follow the RDB image and forwards them. Every prefix of a small command section
// (cut at every byte of its last command) goes through the real dbRestorer.restoreCommand against
// a model target: the complete commands before the cut are forwarded in order, and a section that
// ends inside a command is never taken for a normal end of input (the run reports an error).
package run

import (
	"bufio"
	"bytes"
	"fmt"
	"net"
	"strings"
	"sync"
	"testing"
	"testing/synctest"
	"time"

	"github.com/alibaba/RedisShake/pkg/libs/log"
	conf "github.com/alibaba/RedisShake/redis-shake/configure"
	"github.com/alibaba/RedisShake/verifrt/ev"
	"github.com/alibaba/RedisShake/verifrt/hook"
	"github.com/alibaba/RedisShake/verifrt/memconn"
	"github.com/alibaba/RedisShake/verifrt/mredis"
)

type c10xCase struct {
	Last string `json:"last_command"` // name of the variant of the last command
	Cut  int    `json:"cut"`          // bytes of the last command that are present (len: complete)
}

func c10xResp(argv ...string) []byte {
	var b strings.Builder
	fmt.Fprintf(&b, "*%d\r\n", len(argv))
	for _, a := range argv {
		fmt.Fprintf(&b, "$%d\r\n%s\r\n", len(a), a)
	}
	return []byte(b.String())
}

var c10xLast = map[string][]byte{
	"set":    c10xResp("SET", "last", "value-1"),
	"rpush":  c10xResp("RPUSH", "l", "a", "", "c"),
	"inline": []byte("SET inl 1\r\n"),
}

func c10xRun(t *testing.T, c c10xCase) (kind, what string) {
	head := append(append(c10xResp("SELECT", "0"), c10xResp("SET", "k1", "v1")...), c10xResp("INCR", "n")...)
	last := c10xLast[c.Last]
	section := append(append([]byte{}, head...), last[:c.Cut]...)
	conf.Options.FilterDBWhitelist, conf.Options.FilterDBBlacklist = nil, nil
	conf.Options.TargetAuthType, conf.Options.TargetPasswordRaw, conf.Options.TargetTLSEnable = "auth", "", false
	var mu sync.Mutex
	aborted := false
	hook.SetExitHook(func(int) {
		mu.Lock()
		aborted = true
		mu.Unlock()
	})
	defer hook.SetExitHook(nil)
	defer hook.SetDialHook(nil)
	tgt := mredis.New(mredis.Options{})
	returned := false
	func() {
		defer func() { recover() }() // the command phase never ends by design: its goroutines stay with the bubble
		synctest.Test(t, func(t *testing.T) {
			hook.SetDialHook(func(network, addr string) (net.Conn, error, bool) {
				cc, sc := memconn.Pair(addr)
				go tgt.Serve(sc)
				return cc, nil, true
			})
			dr := &dbRestorer{id: 0, target: []string{"tgt:6379"}}
			go func() {
				dr.restoreCommand(bufio.NewReaderSize(bytes.NewReader(section), 4096), dr.target, "auth", "", false)
				mu.Lock()
				returned = true
				mu.Unlock()
			}()
			for i := 0; i < 4; i++ {
				synctest.Wait()
				time.Sleep(time.Second)
			}
			synctest.Wait()
		})
	}()
	mu.Lock()
	ab, rt := aborted, returned
	mu.Unlock()
	var got []string
	for _, r := range tgt.Received() {
		var a []string
		for _, x := range r.Argv {
			a = append(a, string(x))
		}
		got = append(got, strings.ToLower(a[0])+" "+strings.Join(a[1:], " "))
	}
	want := []string{"select 0", "set k1 v1", "incr n"}
	complete := c.Cut == len(last)
	if complete {
		switch c.Last {
		case "set":
			want = append(want, "set last value-1")
		case "rpush":
			want = append(want, "rpush l a  c")
		case "inline":
			want = append(want, "set inl 1")
		}
	}
	if strings.Join(got, " | ") != strings.Join(want, " | ") {
		return "forwarded", fmt.Sprintf("the target received [%s], the section holds the complete commands [%s]", strings.Join(got, " | "), strings.Join(want, " | "))
	}
	if !complete && c.Cut > 0 && !ab {
		state := "keeps waiting"
		if rt {
			state = "ends normally"
		}
		return "truncation-accepted", fmt.Sprintf("the command section ends %d bytes into its last command (%q) and the run %s without reporting an error", c.Cut, last[:c.Cut], state)
	}
	return "", ""
}

func TestVerif_C10X(t *testing.T) {
	defer ev.Flush("C10")
	log.SetLevel(log.LEVEL_NONE)
	if ev.ReplayFile() != "" {
		var c c10xCase
		if err := ev.LoadReplay(&c); err != nil {
			t.Fatal(err)
		}
		if c.Last == "" {
			return
		}
		k, w := c10xRun(t, c)
		t.Logf("replay %+v -> %s %s", c, k, w)
		if k != "" {
			ev.Violate("C10|command-section|"+k, w, c)
		}
		return
	}
	var n, idx int64
	for _, name := range []string{"set", "rpush", "inline"} {
		for cut := 0; cut <= len(c10xLast[name]); cut++ {
			idx++
			if !ev.Mine(idx) {
				continue
			}
			c := c10xCase{Last: name, Cut: cut}
			k, w := c10xRun(t, c)
			n++
			if k != "" {
				ev.Violate("C10|command-section|"+k, fmt.Sprintf("%s (%+v)", w, c), c)
			}
			ev.Outcome("section:" + k)
			h := ev.HashS(fmt.Sprint("c10x", name, cut))
			ev.State(h)
			ev.Nontrivial(h)
		}
	}
	ev.Eval(n)
	ev.Trace(n)
	ev.Trans(n * 4)
	ev.Count("command_section_prefixes", n)
	ev.Sample("command-section", map[string]interface{}{"last_commands": []string{"set", "rpush", "inline"}, "cuts": "every byte"})
}
