// C05 (dump mode, whole command): CmdDump.Main over 1-3 sources with fewer / as many / more
// dump workers than sources. Every source's SYNC reply carries a different RDB; when Main returns
// <output>.<i> is byte-identical to the RDB of source i. Runs in a bubble (progress timers).
package run

import (
	"bytes"
	"fmt"
	"io/ioutil"
	"net"
	"os"
	"path/filepath"
	"strings"
	"testing"
	"testing/synctest"
	"time"

	"github.com/alibaba/RedisShake/pkg/libs/log"
	conf "github.com/alibaba/RedisShake/redis-shake/configure"
	"github.com/alibaba/RedisShake/verifrt/ev"
	"github.com/alibaba/RedisShake/verifrt/hook"
	"github.com/alibaba/RedisShake/verifrt/memconn"
	"github.com/alibaba/RedisShake/verifrt/msource"
)

type c05mCase struct {
	Sources int `json:"sources"`
	Workers int `json:"source_rdb_parallel"`
}

func c05mRun(t *testing.T, c c05mCase) (kind, what string) {
	defer ev.Watch(fmt.Sprintf("whole dump command %+v", c), 150*time.Second, c)()
	prefix := filepath.Join(os.Getenv("VERIF_SCRATCH"), fmt.Sprintf("c05m-%d.rdb", os.Getpid()))
	var addrs []string
	rdbs := map[string][]byte{}
	for i := 0; i < c.Sources; i++ {
		a := fmt.Sprintf("10.0.0.%d:6379", i+1)
		addrs = append(addrs, a)
		body := c05dRDB(700 + 4100*i)
		for j := range body {
			body[j] ^= byte(i + 1)
		}
		rdbs[a] = body
		defer os.Remove(fmt.Sprintf("%s.%d", prefix, i))
		// the outputs of an earlier, larger dump are still there: the run replaces them
		ioutil.WriteFile(fmt.Sprintf("%s.%d", prefix, i), bytes.Repeat([]byte("stale dump of an earlier run\n"), (len(body)+8192)/29), 0644)
	}
	conf.Options.SourceAddressList = addrs
	conf.Options.SourceRdbParallel = c.Workers
	conf.Options.TargetRdbOutput = prefix
	conf.Options.SourceAuthType, conf.Options.SourcePasswordRaw = "auth", ""
	conf.Options.ExtraInfo = false
	defer func() { conf.Options.SourceAddressList, conf.Options.TargetRdbOutput = nil, "" }()
	abort := false
	hook.SetExitHook(func(int) { abort = true })
	defer hook.SetExitHook(nil)
	defer hook.SetDialHook(nil)
	bad := func(k, w string) {
		if kind == "" {
			kind, what = k, w
		}
	}
	func() {
		defer func() {
			if x := recover(); x != nil && !strings.Contains(fmt.Sprint(x), "blocked goroutines remain") {
				bad("harness-bubble", fmt.Sprint(x))
			}
		}()
		synctest.Test(t, func(t *testing.T) {
			masters := map[string]*msource.Master{}
			served := map[string]int{}
			var conns []*memconn.Conn
			hook.SetDialHook(func(network, addr string) (net.Conn, error, bool) {
				m := masters[addr]
				if m == nil {
					m = msource.New()
					masters[addr] = m
				}
				cc, sc := memconn.Pair(addr)
				conns = append(conns, sc)
				go m.Serve(sc)
				return cc, nil, true
			})
			returned := false
			go func() {
				(&CmdDump{}).Main()
				returned = true
			}()
			// answer every SYNC that has arrived with that source's RDB
			for step := 0; step < 12 && !returned; step++ {
				synctest.Wait()
				for addr, m := range masters {
					for served[addr] < m.NumConns() {
						conn := m.Conn(served[addr])
						served[addr]++
						conn.Write([]byte(fmt.Sprintf("\n$%d\r\n", len(rdbs[addr]))))
						conn.Write(rdbs[addr])
					}
				}
				time.Sleep(time.Second)
			}
			synctest.Wait()
			switch {
			case abort:
				bad("abort", "the dump command aborts")
			case !returned:
				bad("not-finished", "CmdDump.Main did not return although every source delivered its RDB")
			}
			if kind == "" {
				for i, a := range addrs {
					data, err := ioutil.ReadFile(fmt.Sprintf("%s.%d", prefix, i))
					if err != nil || !bytes.Equal(data, rdbs[a]) {
						bad("file", fmt.Sprintf("output %d has %d bytes, the RDB of source %s has %d; equal=%v err=%v", i, len(data), a, len(rdbs[a]), bytes.Equal(data, rdbs[a]), err))
					}
				}
			}
			for _, sc := range conns {
				sc.Cut()
			}
			synctest.Wait()
		})
	}()
	return
}

func TestVerif_C05M(t *testing.T) {
	defer ev.Flush("C05")
	log.SetLevel(log.LEVEL_NONE)
	if ev.ReplayFile() != "" {
		var c c05mCase
		if err := ev.LoadReplay(&c); err != nil {
			t.Fatal(err)
		}
		if c.Sources == 0 {
			return
		}
		k, w := c05mRun(t, c)
		t.Logf("replay %+v -> %s %s", c, k, w)
		if k != "" {
			ev.Violate("C05|dump-main|"+k, w, c)
		}
		return
	}
	var n, idx int64
	for src := 1; src <= 3; src++ {
		for w := 1; w <= src+1; w++ {
			idx++
			if !ev.Mine(idx) {
				continue
			}
			c := c05mCase{src, w}
			k, what := c05mRun(t, c)
			n++
			h := ev.HashS(fmt.Sprint(c))
			ev.State(h)
			ev.Nontrivial(h)
			ev.Outcome("dump-main:" + k)
			if k != "" {
				ev.Violate("C05|dump-main|"+k, fmt.Sprintf("%s (%d sources, source.rdb.parallel=%d)", what, src, w), c)
			}
		}
	}
	ev.Eval(n)
	ev.Trace(n)
	ev.Trans(n)
}
