//go:debug asynctimerchan=0

// C05 (dump mode): the output file is byte-identical to the RDB and the bytes after it stay
// unread. Package run. Unexported identifiers used: dbDumper{id,source,output}, dump.
package run

import (
	"bytes"
	"fmt"
	"io/ioutil"
	"net"
	"os"
	"path/filepath"
	"strings"
	"testing"
	"testing/synctest"
	"time"

	"github.com/alibaba/RedisShake/pkg/libs/log"
	"github.com/alibaba/RedisShake/verifrt/ev"
	"github.com/alibaba/RedisShake/verifrt/hook"
	"github.com/alibaba/RedisShake/verifrt/memconn"
	"github.com/alibaba/RedisShake/verifrt/msource"
)

type c05dCase struct {
	NL   int   `json:"newlines"`
	N    int   `json:"rdb_size"`
	Tail int   `json:"bytes_after"`
	Cuts []int `json:"cuts"`
}

func c05dRDB(n int) []byte {
	const alphabet = "\n$*+-:\r0123456789abcdef\xff\x00"
	out := make([]byte, n)
	for i := range out {
		out[i] = alphabet[(i*7+i/13)%len(alphabet)]
	}
	return out
}

func c05dRun(t *testing.T, c c05dCase) (kind, what string) {
	var hdr bytes.Buffer
	hdr.WriteString(strings.Repeat("\n", c.NL))
	fmt.Fprintf(&hdr, "$%d\r\n", c.N)
	rdb := c05dRDB(c.N)
	tail := bytes.Repeat([]byte("*1\r\n$4\r\nPING\r\n"), c.Tail)
	stream := append(append(append([]byte{}, hdr.Bytes()...), rdb...), tail...)
	out := filepath.Join(os.Getenv("VERIF_SCRATCH"), fmt.Sprintf("c05dump-%d.rdb", os.Getpid()))
	defer os.Remove(out)
	// the output of an earlier, larger dump is still there: the run replaces it
	ioutil.WriteFile(out, bytes.Repeat([]byte("stale dump of an earlier run\n"), (len(rdb)+8192)/29), 0644)
	abort := false
	hook.SetExitHook(func(int) { abort = true })
	defer hook.SetExitHook(nil)
	defer hook.SetDialHook(nil)
	bad := func(k, w string) {
		if kind == "" {
			kind, what = k, w
		}
	}
	func() {
		defer func() {
			if x := recover(); x != nil {
				bad("harness-bubble", fmt.Sprint(x))
			}
		}()
		synctest.Test(t, func(t *testing.T) {
			m := msource.New()
			hook.SetDialHook(func(network, addr string) (net.Conn, error, bool) {
				cc, sc := memconn.Pair("source")
				go m.Serve(sc)
				return cc, nil, true
			})
			dd := &dbDumper{id: 0, source: "10.0.0.1:6379", output: out}
			done := false
			var rest []byte
			var nsize int64
			go func() {
				reader, writer, n := dd.dump()
				nsize = n
				_ = writer
				// what is left in the returned reader is what the command phase will see
				buf := make([]byte, len(tail))
				got := 0
				for got < len(tail) {
					k, err := reader.Read(buf[got:])
					got += k
					if err != nil {
						break
					}
				}
				rest = buf[:got]
				done = true
			}()
			synctest.Wait()
			pos := 0
			for _, cut := range append(append([]int{}, c.Cuts...), len(stream)) {
				if cut <= pos || cut > len(stream) {
					continue
				}
				m.Conn(-1).Write(stream[pos:cut])
				pos = cut
				synctest.Wait()
			}
			time.Sleep(2100 * time.Millisecond)
			synctest.Wait()
			switch {
			case abort:
				bad("abort", "dump aborts")
			case !done:
				bad("not-finished", "dump did not return after the whole RDB had arrived")
			case nsize != int64(c.N):
				bad("size", fmt.Sprintf("announced size %d, used %d", c.N, nsize))
			case len(rest) > len(tail) || !bytes.Equal(rest, tail[:len(rest)]):
				// dump() closes the source connection when it returns, so only what had been buffered
				// can still be read; it must be the bytes that follow the RDB, from their first byte on
				bad("after-rdb", fmt.Sprintf("the returned reader yields %d bytes that are not the bytes following the RDB", len(rest)))
			}
			if kind == "" {
				data, err := ioutil.ReadFile(out)
				if err != nil || !bytes.Equal(data, rdb) {
					bad("file", fmt.Sprintf("output file has %d bytes, RDB has %d; equal=%v err=%v", len(data), len(rdb), bytes.Equal(data, rdb), err))
				}
			}
			m.Conn(-1).(*memconn.Conn).Cut()
			synctest.Wait()
		})
	}()
	return
}

func TestVerif_C05D(t *testing.T) {
	defer ev.Flush("C05")
	log.SetLevel(log.LEVEL_NONE)
	if ev.ReplayFile() != "" {
		var c c05dCase
		if err := ev.LoadReplay(&c); err != nil {
			t.Fatal(err)
		}
		if c.N == 0 {
			return // a replay file of the sync-side part
		}
		k, w := c05dRun(t, c)
		t.Logf("replay %+v -> %s %s", c, k, w)
		if k != "" {
			ev.Violate("C05|dump-"+k, w, c)
		}
		return
	}
	var n, idx int64
	run := func(c c05dCase) {
		idx++
		if !ev.Mine(idx) || ev.OverBudget() {
			return
		}
		k, w := c05dRun(t, c)
		n++
		if k != "" {
			ev.Violate("C05|dump-"+k, fmt.Sprintf("%s (case %+v)", w, c), c)
		}
		ev.Outcome("dump:" + k)
		h := ev.HashS(fmt.Sprint(c))
		ev.State(h)
		ev.Nontrivial(h)
		if n%40 == 1 {
			ev.Sample("dump", c)
		}
	}
	for _, nl := range []int{0, 2} {
		for _, nn := range []int{1, 17, 8192, 8193} {
			for _, tl := range []int{0, 3} {
				base := c05dCase{NL: nl, N: nn, Tail: tl}
				hl := nl + len(fmt.Sprintf("$%d\r\n", nn))
				total := hl + nn + tl*14
				run(base)
				marks := []int{1, hl - 1, hl, hl + 1, hl + nn - 1, hl + nn, hl + nn + 1, total - 1}
				for i, a := range marks {
					if a <= 0 || a >= total {
						continue
					}
					c := base
					c.Cuts = []int{a}
					run(c)
					if ev.Thorough() {
						for _, b := range marks[i+1:] {
							if b > a && b < total {
								c2 := base
								c2.Cuts = []int{a, b}
								run(c2)
							}
						}
					}
				}
			}
		}
	}
	ev.Eval(n)
	ev.Trace(n)
	ev.Trans(n * 2)
}
