// C06 (restore and rump paths): the same key domain and reference predicate (engine/kit06) as
// the sync paths. Unexported identifiers used: dbRestorer.restoreRDBFile, NewDbRumperExecutor(...).exec.
package run

import (
	"bufio"
	"bytes"
	"fmt"
	"net"
	"strings"
	"sync"
	"testing"
	"testing/synctest"
	"time"

	"github.com/alibaba/RedisShake/pkg/libs/log"
	conf "github.com/alibaba/RedisShake/redis-shake/configure"
	"github.com/alibaba/RedisShake/verifrt/ev"
	"github.com/alibaba/RedisShake/verifrt/hook"
	"github.com/alibaba/RedisShake/verifrt/kit06"
	"github.com/alibaba/RedisShake/verifrt/memconn"
	"github.com/alibaba/RedisShake/verifrt/mredis"
	"github.com/alibaba/RedisShake/verifrt/rdbgen"
	redigo "github.com/garyburd/redigo/redis"
)

type c06rCase struct {
	Path string       `json:"path"`
	Cfg  kit06.Config `json:"config"`
	// TargetDB: 0 means target.db=-1, n>0 a fixed target database n-1
	TargetDB int `json:"target_db_plus1,omitempty"`
	// Cloud (rump): scan.special_cloud; "tencent_cluster": the source has one logical database (0),
	// the database list is not taken from INFO keyspace
	Cloud string `json:"scan_special_cloud,omitempty"`
}

// c06rObserved: the (source db, key) pairs that reached the target, from its command log.
func c06rObserved(srv *mredis.Server, c c06rCase) (map[string]bool, string, string) {
	var cmds []kit06.AppliedCmd
	for _, a := range srv.Applied() {
		cmds = append(cmds, kit06.AppliedCmd{DB: a.DB, Argv: a.Argv})
	}
	return kit06.Observed(cmds, c.TargetDB-1)
}

var c06rReg = mredis.NewRegistry()

func c06rCollect(srv *mredis.Server) map[string]bool {
	got := map[string]bool{}
	for _, db := range kit06.DBs {
		for _, k := range srv.Keys(db) {
			got[fmt.Sprintf("%d/%s", db, k)] = true
		}
	}
	return got
}

func c06rCommon(c c06rCase) {
	c.Cfg.Apply()
	conf.Options.Parallel = 2
	conf.Options.KeyExists = "none"
	if c.TargetDB != 0 {
		conf.Options.KeyExists = "rewrite" // the same key name arrives from several source databases
	}
	conf.Options.BigKeyThreshold = 1 << 30
	conf.Options.TargetVersion = ""
	conf.Options.TargetType = "standalone"
	conf.Options.TargetDB = c.TargetDB - 1
	conf.Options.TargetReplace = true
	conf.Options.Metric = true
	conf.Options.ScanKeyNumber = 7
	conf.Options.ScanKeyFile = ""
	conf.Options.ScanSpecialCloud = ""
	conf.Options.Qps = 100000
}

func c06Restore(c c06rCase) (string, string) {
	var items []rdbgen.Item
	for _, db := range kit06.DBs {
		items = append(items, rdbgen.SelectDB(uint32(db), rdbgen.LCanon))
		for _, k := range kit06.Keys() {
			v := rdbgen.StringVal(rdbgen.RawStr([]byte(kit06.Marker(db)), rdbgen.LCanon))
			c06rReg.Add(v.Type, v.Raw, v.Log)
			items = append(items, rdbgen.Key(rdbgen.RawStr([]byte(k), rdbgen.LCanon), v, rdbgen.KeyOpts{}))
		}
	}
	items = append(items, rdbgen.Aux(rdbgen.RawStr([]byte("lua"), rdbgen.LCanon), rdbgen.RawStr([]byte("return 1"), rdbgen.LCanon)))
	file, _ := rdbgen.File(9, items)
	c06rCommon(c)
	defer kit06.Reset()
	srv := mredis.New(mredis.Options{Registry: c06rReg})
	hook.SetDialHook(func(network, addr string) (net.Conn, error, bool) {
		cc, sc := memconn.Pair("target")
		go srv.Serve(sc)
		return cc, nil, true
	})
	defer hook.SetDialHook(nil)
	aborted := false
	hook.SetExitHook(func(int) { aborted = true })
	defer hook.SetExitHook(nil)
	done := make(chan struct{})
	go func() {
		defer close(done)
		dr := &dbRestorer{id: 0, target: []string{"target:6379"}}
		dr.restoreRDBFile(bufio.NewReaderSize(bytes.NewReader(file), 4096), dr.target, "auth", "", int64(len(file)), false)
	}()
	<-done
	if aborted {
		return "abort", "restore aborts"
	}
	got, k, w := c06rObserved(srv, c)
	if k != "" {
		return k, w
	}
	if k, w := kit06.Compare(c.Cfg, "restore", got); k != "" {
		return k, w
	}
	if n := len(srv.Scripts()); (n == 1) == c.Cfg.Lua {
		return "lua-script", fmt.Sprintf("filter.lua=%v but %d scripts were loaded", c.Cfg.Lua, n)
	}
	return "", ""
}

func c06Rump(t *testing.T, c c06rCase) (kind, what string) {
	c06rCommon(c)
	defer kit06.Reset()
	var mu sync.Mutex
	aborted := false
	hook.SetExitHook(func(int) {
		mu.Lock()
		aborted = true
		mu.Unlock()
	})
	defer hook.SetExitHook(nil)
	func() {
		defer func() {
			if x := recover(); x != nil && !strings.Contains(fmt.Sprint(x), "blocked goroutines remain") {
				kind, what = "harness-bubble", fmt.Sprint(x)
			}
		}()
		synctest.Test(t, func(t *testing.T) {
			reg := mredis.NewRegistry()
			src := mredis.New(mredis.Options{Registry: reg})
			dst := mredis.New(mredis.Options{Registry: reg})
			conf.Options.ScanSpecialCloud = c.Cloud
			defer func() { conf.Options.ScanSpecialCloud = "" }()
			for _, db := range kit06.DBs {
				if c.Cloud != "" && db != 0 {
					continue
				}
				for _, k := range kit06.Keys() {
					src.Put(db, k, &mredis.Entry{Kind: "string", Str: []byte(kit06.Marker(db))})
				}
			}
			conn := func(s *mredis.Server, name string) redigo.Conn {
				cc, sc := memconn.Pair(name)
				go s.Serve(sc)
				return redigo.NewConn(cc, 0, 0)
			}
			exe := NewDbRumperExecutor(0, 0, conn(src, "source"), conn(dst, "target"), conn(dst, "target-big"), "")
			returned := false
			go func() {
				exe.exec()
				mu.Lock()
				returned = true
				mu.Unlock()
			}()
			for i := 0; i < 40; i++ {
				synctest.Wait()
				mu.Lock()
				done := returned || aborted
				mu.Unlock()
				if done {
					break
				}
				time.Sleep(time.Second)
			}
			synctest.Wait()
			mu.Lock()
			rt, ab := returned, aborted
			mu.Unlock()
			switch {
			case ab:
				kind, what = "abort", "rump aborts"
			case !rt:
				kind, what = "no-termination", "rump did not finish"
			default:
				var got map[string]bool
				got, kind, what = c06rObserved(dst, c)
				if kind == "" && c.Cloud == "" {
					kind, what = kit06.Compare(c.Cfg, "rump", got)
				}
				if kind == "" && c.Cloud != "" {
					// one logical database: the decision for every key of database 0
					for _, k := range kit06.Keys() {
						want := kit06.Passes(c.Cfg, "rump", 0, k)
						have := got["0/"+k]
						if have && !want {
							kind, what = "excluded-key-copied", fmt.Sprintf("key %q of db 0 is excluded by the configuration and reached the target (scan.special_cloud=%s)", k, c.Cloud)
							break
						}
						if want && !have {
							kind, what = "passing-key-missing", fmt.Sprintf("key %q of db 0 passes the configuration and did not reach the target (scan.special_cloud=%s)", k, c.Cloud)
							break
						}
					}
				}
			}
		})
	}()
	return
}

func TestVerif_C06R(t *testing.T) {
	defer ev.Flush("C06")
	log.SetLevel(log.LEVEL_NONE)
	if ev.ReplayFile() != "" {
		var c c06rCase
		if err := ev.LoadReplay(&c); err != nil {
			t.Fatal(err)
		}
		var k, w string
		switch c.Path {
		case "restore":
			k, w = c06Restore(c)
		case "rump":
			k, w = c06Rump(t, c)
		default:
			return
		}
		t.Logf("replay %s %s -> %s %s", c.Path, c.Cfg, k, w)
		if k != "" {
			ev.Violate("C06|"+c.Path+"|"+k, w, c)
		}
		return
	}
	level := 1 // key lists fully crossed with db lists
	var n, idx int64
	nk := int64(len(kit06.Keys()) * len(kit06.DBs))
	for _, path := range []string{"restore", "rump"} {
		for _, cfg := range kit06.Configs(path, level) {
			idx++
			if !ev.Mine(idx) {
				continue
			}
			if ev.OverBudget() {
				ev.Cap("time budget")
				break
			}
			// target.db = -1, every source database (filtered or not) as fixed target, one unused
			tdbs := []int{0}
			for _, db := range kit06.DBs {
				tdbs = append(tdbs, db+1)
			}
			tdbs = append(tdbs, 5+1)
			for _, tdb := range tdbs {
				c := c06rCase{Path: path, Cfg: cfg, TargetDB: tdb}
				var k, w string
				if path == "restore" {
					k, w = c06Restore(c)
				} else {
					k, w = c06Rump(t, c)
				}
				n++
				if k != "" {
					ev.Violate("C06|"+path+"|"+k, fmt.Sprintf("%s (path %s, target.db=%d, %s)", w, path, tdb-1, cfg), c)
				}
				ev.Outcome(path + ":" + k)
				h := ev.HashS(fmt.Sprintf("%s%s%d", path, cfg.String(), tdb))
				ev.State(h)
				if strings.Contains(cfg.String(), "[") {
					ev.Nontrivial(h)
				}
			}
			if path == "rump" {
				// the cloud scanner whose database list does not come from INFO keyspace
				for _, tdb := range []int{0, 1} {
					c := c06rCase{Path: path, Cfg: cfg, TargetDB: tdb, Cloud: "tencent_cluster"}
					k, w := c06Rump(t, c)
					n++
					if k != "" {
						ev.Violate("C06|"+path+"|"+k, fmt.Sprintf("%s (path %s, target.db=%d, %s)", w, path, tdb-1, cfg), c)
					}
					ev.Outcome(path + "-cloud:" + k)
					h := ev.HashS(fmt.Sprintf("%s-cloud%s%d", path, cfg.String(), tdb))
					ev.State(h)
					if strings.Contains(cfg.String(), "[") {
						ev.Nontrivial(h)
					}
				}
			}
			if n%40 == 1 {
				ev.Sample(path, map[string]interface{}{"config": cfg, "keys_per_db": len(kit06.Keys()), "dbs": kit06.DBs})
			}
		}
	}
	ev.Eval(n)
	ev.Trace(n)
	ev.Trans(n * nk)
	ev.Count("key_decisions_observed", n*nk)
}
