// C07 / C14 (whole sync command): CmdSync.Main over 1-3 standalone sources into one target,
// with and without resume. Every source is a model master that answers PSYNC with +FULLRESYNC,
// an RDB and a short command stream of its own. When things are quiet the target holds the union
// of all sources' data, every key once, and (resume) one checkpoint per source whose offset is
// that source's announced offset plus the length of its stream. Runs in a bubble; Main never
// returns by design.
package run

import (
	"fmt"
	"net"
	"os"
	"path/filepath"
	"runtime"
	"strconv"
	"strings"
	"sync"
	"testing"
	"testing/synctest"
	"time"

	"github.com/alibaba/RedisShake/pkg/libs/log"
	utils "github.com/alibaba/RedisShake/redis-shake/common"
	conf "github.com/alibaba/RedisShake/redis-shake/configure"
	"github.com/alibaba/RedisShake/verifrt/ev"
	"github.com/alibaba/RedisShake/verifrt/hook"
	"github.com/alibaba/RedisShake/verifrt/memconn"
	"github.com/alibaba/RedisShake/verifrt/mredis"
	"github.com/alibaba/RedisShake/verifrt/msource"
	"github.com/alibaba/RedisShake/verifrt/rdbgen"
)

type c07sCase struct {
	Sources  int  `json:"sources"`
	Resume   bool `json:"resume"`
	FullPar  int  `json:"source_rdb_parallel"`
	Parallel int  `json:"parallel"`
	// TailSplit: 0: RDB and command stream arrive in one go; k: the last k bytes of the RDB (its
	// checksum is the last 8) arrive one second later, together with the command stream
	TailSplit int `json:"rdb_tail_split,omitempty"`
}

func c07sResp(argv ...string) []byte {
	var b strings.Builder
	fmt.Fprintf(&b, "*%d\r\n", len(argv))
	for _, a := range argv {
		fmt.Fprintf(&b, "$%d\r\n%s\r\n", len(a), a)
	}
	return []byte(b.String())
}

// c07sCheckpoints: the checkpoint hashes of database db (the key name may carry a suffix).
func c07sCheckpoints(tgt *mredis.Server, db int) []*mredis.Entry {
	var out []*mredis.Entry
	for _, k := range tgt.Keys(db) {
		if strings.HasPrefix(k, utils.CheckpointKey) {
			if e := tgt.Lookup(db, k); e != nil {
				out = append(out, e)
			}
		}
	}
	return out
}

func c07sRun(t *testing.T, c c07sCase) (kind, what string) {
	defer ev.Watch(fmt.Sprintf("whole sync command %+v", c), 150*time.Second, c)()
	kitCommon()
	conf.Options.Type = conf.TypeSync
	conf.Options.SourceType, conf.Options.TargetType = "standalone", "standalone"
	var addrs []string
	for i := 0; i < c.Sources; i++ {
		addrs = append(addrs, fmt.Sprintf("10.0.2.%d:6379", i+1))
	}
	conf.Options.SourceAddressList, conf.Options.TargetAddressList = addrs, []string{"tgt:6379"}
	conf.Options.SourceAuthType, conf.Options.TargetAuthType = "auth", "auth"
	conf.Options.SourcePasswordRaw, conf.Options.TargetPasswordRaw = "", ""
	conf.Options.SourceRdbParallel = c.FullPar
	conf.Options.Parallel = c.Parallel
	conf.Options.Psync = true
	conf.Options.KeyExists = "rewrite"
	conf.Options.ResumeFromBreakPoint = c.Resume
	conf.Options.SenderCount, conf.Options.SenderSize, conf.Options.SenderDelayChannelSize = 4, 1<<20, 64
	conf.Options.HttpProfile = 9400
	conf.Options.Id = "verif"
	conf.Options.ExtraInfo = false
	// sock.file_name / sock.file_size (a file-backed buffer between the source link and the parser)
	// are configured for every second scenario; every source link needs a buffer of its own
	conf.Options.SockFileName, conf.Options.SockFileSize = "", 0
	if (c.Sources+c.FullPar+c.TailSplit)%2 == 0 {
		conf.Options.SockFileName = filepath.Join(os.Getenv("VERIF_SCRATCH"), fmt.Sprintf("c07s-sock-%d", os.Getpid()))
		conf.Options.SockFileSize = 4 << 20
		defer os.Remove(conf.Options.SockFileName)
	}
	defer func() {
		conf.Options.SourceAddressList, conf.Options.TargetAddressList = nil, nil
		conf.Options.ResumeFromBreakPoint = false
		conf.Options.SockFileName, conf.Options.SockFileSize = "", 0
	}()
	var mu sync.Mutex
	abort := false
	hook.SetExitHook(func(int) {
		mu.Lock()
		abort = true
		mu.Unlock()
	})
	defer hook.SetExitHook(nil)
	defer hook.SetDialHook(nil)
	bad := func(k, w string) {
		if kind == "" {
			kind, what = k, w
		}
	}
	func() {
		defer func() { recover() }() // Main and the syncers never end by design
		synctest.Test(t, func(t *testing.T) {
			reg := mredis.NewRegistry()
			tgt := mredis.New(mredis.Options{Registry: reg})
			masters := map[string]*msource.Master{}
			rdbs := map[string][]byte{}
			streams := map[string][]byte{}
			base := map[string]int64{}
			for i, a := range addrs {
				i, a := i, a
				m := msource.New()
				base[a] = int64(1000 * (i + 1))
				m.PsyncReply = func(p msource.Psync) string {
					return fmt.Sprintf("+FULLRESYNC %040d %d", i+1, base[a])
				}
				masters[a] = m
				v := rdbgen.StringVal(rdbgen.RawStr([]byte(fmt.Sprintf("from-rdb-%d", i)), rdbgen.LCanon))
				reg.Add(v.Type, v.Raw, v.Log)
				rdbs[a], _ = rdbgen.File(9, []rdbgen.Item{rdbgen.SelectDB(1, rdbgen.LCanon),
					rdbgen.Key(rdbgen.RawStr([]byte(fmt.Sprintf("r%d", i)), rdbgen.LCanon), v, rdbgen.KeyOpts{}),
					rdbgen.Key(rdbgen.RawStr([]byte(fmt.Sprintf("q%d", i)), rdbgen.LCanon), v, rdbgen.KeyOpts{})})
				var s []byte
				s = append(s, c07sResp("SELECT", "0")...)
				s = append(s, c07sResp("SET", fmt.Sprintf("k%d", i), "v")...)
				s = append(s, c07sResp("INCR", fmt.Sprintf("n%d", i))...)
				s = append(s, c07sResp("SELECT", "2")...)
				s = append(s, c07sResp("RPUSH", fmt.Sprintf("l%d", i), "x")...)
				streams[a] = s
			}
			tearing := false
			var opened []*memconn.Conn
			hook.SetDialHook(func(network, addr string) (net.Conn, error, bool) {
				if tearing {
					runtime.Goexit()
				}
				cc, sc := memconn.Pair(addr)
				opened = append(opened, sc)
				if m := masters[addr]; m != nil {
					go m.Serve(sc)
				} else {
					go tgt.Serve(sc)
				}
				return cc, nil, true
			})
			go (&CmdSync{}).Main()
			answered := map[string]int{}
			type lateWrite struct {
				conn net.Conn
				data []byte
			}
			var later []lateWrite
			for step := 0; step < 10; step++ {
				synctest.Wait()
				for _, lw := range later {
					lw.conn.Write(lw.data)
				}
				later = nil
				for _, a := range addrs {
					m := masters[a]
					ps := m.Psyncs()
					for answered[a] < len(ps) {
						p := ps[answered[a]]
						answered[a]++
						conn := m.Conn(p.Conn)
						conn.Write([]byte(fmt.Sprintf("\n$%d\r\n", len(rdbs[a]))))
						if k := c.TailSplit; k > 0 && k < len(rdbs[a]) {
							conn.Write(rdbs[a][:len(rdbs[a])-k])
							later = append(later, lateWrite{conn, append(append([]byte{}, rdbs[a][len(rdbs[a])-k:]...), streams[a]...)})
						} else {
							conn.Write(rdbs[a])
							conn.Write(streams[a])
						}
					}
				}
				time.Sleep(time.Second)
			}
			synctest.Wait()
			mu.Lock()
			ab := abort
			mu.Unlock()
			if ab {
				bad("abort", "the sync command aborts although nothing is wrong")
			}
			for i, a := range addrs {
				if kind != "" {
					break
				}
				if n := len(masters[a].Psyncs()); n != 1 {
					bad("psync-count", fmt.Sprintf("source %s received %d PSYNCs, expected exactly one", a, n))
				}
				for _, ck := range []struct {
					db        int
					key, want string
				}{{1, fmt.Sprintf("r%d", i), fmt.Sprintf("from-rdb-%d", i)}, {1, fmt.Sprintf("q%d", i), fmt.Sprintf("from-rdb-%d", i)},
					{0, fmt.Sprintf("k%d", i), "v"}, {0, fmt.Sprintf("n%d", i), "1"}} {
					e := tgt.Lookup(ck.db, ck.key)
					if e == nil || string(e.Str) != ck.want {
						bad("dataset", fmt.Sprintf("source %s: key %s of db %d is %v on the target, expected %q", a, ck.key, ck.db, e, ck.want))
					}
				}
				if e := tgt.Lookup(2, fmt.Sprintf("l%d", i)); e == nil || len(e.List) != 1 {
					bad("dataset", fmt.Sprintf("source %s: list l%d of db 2 is %v on the target, expected one element", a, i, e))
				}
				if c.Resume {
					// the newest checkpoint of this source: offset = announced offset + stream length, run id its own
					found := false
					for db := 0; db < 3; db++ {
						for _, e := range c07sCheckpoints(tgt, db) {
							if off, ok := e.Hash[a+"-"+utils.CheckpointOffset]; ok {
								o, _ := strconv.ParseInt(string(off), 10, 64)
								if o == base[a]+int64(len(streams[a])) {
									found = true
									if rid := string(e.Hash[a+"-"+utils.CheckpointRunId]); rid != fmt.Sprintf("%040d", i+1) {
										bad("checkpoint-runid", fmt.Sprintf("source %s: checkpoint in db %d carries run id %q", a, db, rid))
									}
								} else if o > base[a]+int64(len(streams[a])) {
									bad("checkpoint-offset", fmt.Sprintf("source %s: checkpoint offset %d in db %d is beyond the stream (%d)", a, o, db, base[a]+int64(len(streams[a]))))
								}
							}
						}
					}
					if !found {
						var seen []string
						for db := 0; db < 3; db++ {
							for _, e := range c07sCheckpoints(tgt, db) {
								for _, f := range e.HashOrd {
									seen = append(seen, fmt.Sprintf("db%d %s=%s", db, f, e.Hash[f]))
								}
							}
						}
						var rec []string
						for _, r := range tgt.Received() {
							rec = append(rec, fmt.Sprintf("c%d:%s", r.Conn, r.Name()))
						}
						bad("checkpoint-missing", fmt.Sprintf("source %s: no checkpoint with the final offset %d on the target; checkpoint fields: %v; target received %v", a, base[a]+int64(len(streams[a])), seen, rec))
					}
				}
			}
			// every RDB key restored exactly once
			count := map[string]int{}
			for _, r := range tgt.Applied() {
				if r.Name() == "restore" {
					count[string(r.Argv[1])]++
				}
			}
			for k, n := range count {
				if n != 1 {
					bad("restore-count", fmt.Sprintf("key %s was restored %d times", k, n))
				}
			}
			tearing = true
			for _, sc := range opened {
				sc.Cut()
			}
			for i := 0; i < 4; i++ {
				time.Sleep(time.Second)
				synctest.Wait()
			}
		})
	}()
	return
}

func TestVerif_C07S(t *testing.T) {
	defer ev.Flush("C07")
	log.SetLevel(log.LEVEL_NONE)
	if ev.ReplayFile() != "" {
		var c c07sCase
		if err := ev.LoadReplay(&c); err != nil {
			t.Fatal(err)
		}
		if c.Sources == 0 || c.FullPar == 0 {
			return
		}
		k, w := c07sRun(t, c)
		t.Logf("replay %+v -> %s %s", c, k, w)
		if k != "" {
			ev.Violate("C07|sync-main|"+k, w, c)
		}
		return
	}
	var n, idx int64
	for src := 1; src <= 3; src++ {
		for _, resume := range []bool{false, true} {
			for _, fp := range []int{1, src} {
				if fp == 1 && src == 1 && resume {
					continue
				}
				idx++
				if !ev.Mine(idx) {
					continue
				}
				c := c07sCase{src, resume, fp, 2, 0}
				k, what := c07sRun(t, c)
				n++
				h := ev.HashS(fmt.Sprint(c))
				ev.State(h)
				ev.Nontrivial(h)
				ev.Outcome("sync-main:" + k)
				if k != "" {
					ev.Violate("C07|sync-main|"+k, fmt.Sprintf("%s (%d sources, resume=%v, source.rdb.parallel=%d)", what, src, resume, fp), c)
				}
			}
		}
	}
	// the end of the RDB arrives late: the command phase must not start on the shared reader
	// before the RDB (checksum included) has been consumed
	for _, k := range []int{1, 4, 8, 9, 12} {
		for _, src := range []int{1, 2} {
			idx++
			if !ev.Mine(idx) {
				continue
			}
			c := c07sCase{src, src == 2, src, 2, k}
			kk, what := c07sRun(t, c)
			n++
			h := ev.HashS(fmt.Sprint(c))
			ev.State(h)
			ev.Nontrivial(h)
			ev.Outcome("sync-main:" + kk)
			if kk != "" {
				ev.Violate("C07|sync-main|"+kk, fmt.Sprintf("%s (%d sources, resume=%v, last %d RDB bytes delayed)", what, src, c.Resume, k), c)
			}
		}
	}
	ev.Eval(n)
	ev.Trace(n)
	ev.Trans(n)
}
