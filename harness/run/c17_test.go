// C17: decode mode prints every element of the RDB, recoverably. Package run.
// Unexported identifiers used: CmdDecode.decode, CmdDecode.decoderMain.
package run

import (
	"bytes"
	"encoding/base64"
	"encoding/json"
	"fmt"
	"io/ioutil"
	"math"
	"os"
	"path/filepath"
	"sort"
	"strings"
	"sync/atomic"
	"syscall"
	"testing"
	"testing/synctest"
	"time"

	"github.com/alibaba/RedisShake/pkg/libs/log"
	"github.com/alibaba/RedisShake/pkg/rdb"
	conf "github.com/alibaba/RedisShake/redis-shake/configure"
	"github.com/alibaba/RedisShake/verifrt/ev"
	"github.com/alibaba/RedisShake/verifrt/hook"
	"github.com/alibaba/RedisShake/verifrt/rdbcat"
	"github.com/alibaba/RedisShake/verifrt/rdbgen"
	"github.com/alibaba/RedisShake/verifrt/seqx"
)

type c17Case struct {
	Sub      string `json:"sub"` // file, sched, inf
	File     int    `json:"file"`
	Parallel int    `json:"parallel"`
	Trail    []int  `json:"trail"`
}

// c17Files splits the classic values of the catalogue into files of up to 12 keys each, with
// binary key names, databases, expiries and Lua scripts mixed in.
func c17Files() [][]rdbgen.Item {
	var vals []*rdbgen.Value
	for _, v := range rdbcat.Values(1) {
		if v.Type == rdbgen.TStream {
			continue
		}
		bad := false
		for _, z := range v.Log.ZSet {
			if math.IsNaN(z.Score) || math.IsInf(z.Score, 0) {
				bad = true
			}
		}
		if !bad {
			vals = append(vals, v)
		}
	}
	forms := append(rdbcat.LZFFamily(), rdbgen.IntStr(-5, 8), rdbgen.IntStr(-300, 16), rdbgen.IntStr(70000, 32))
	var files [][]rdbgen.Item
	var cur []rdbgen.Item
	for i, v := range vals {
		if len(cur) == 0 {
			cur = append(cur, rdbgen.SelectDB(uint32(len(files)%3), rdbgen.LCanon))
		}
		name := []byte(fmt.Sprintf("key-%d", i))
		switch i % 4 {
		case 1:
			name = []byte(fmt.Sprintf("k\x00\xff\xfe\"%d\n", i))
		case 2:
			name = append([]byte{0xc3, 0x28}, []byte(fmt.Sprint(i))...) // invalid UTF-8
		case 0:
			if i%8 == 0 {
				// characters that mean something to a formatter, a JSON writer or a shell
				name = []byte(fmt.Sprintf("100%%-%d-%%s%%d%%\\-<&>'\u2028-%%", i))
			}
		}
		opts := rdbgen.KeyOpts{}
		if i%3 == 0 {
			opts = rdbgen.KeyOpts{ExpKind: "ms", ExpAt: 4102444800000 + uint64(i)}
		}
		if i%6 == 3 {
			// expiry written in seconds (old Redis versions, other writers)
			opts = rdbgen.KeyOpts{ExpKind: "s", ExpAt: 4102444800 + uint64(i)}
		}
		switch i % 7 {
		case 2:
			// written by a server with an LFU / LRU maxmemory policy
			opts.HasFreq, opts.Freq = true, uint8(37*i)
		case 5:
			opts.HasIdle, opts.Idle = true, uint64(1000+i)
		}
		ks := rdbgen.RawStr(name, rdbgen.LCanon)
		if i%4 == 3 {
			// key names in the other string encodings (LZF with every back-reference relation, integers)
			ks = forms[(i/4)%len(forms)]
		}
		cur = append(cur, rdbgen.Key(ks, v, opts))
		if i%5 == 4 {
			cur = append(cur, rdbgen.SelectDB(uint32(i%7), rdbgen.LCanon))
		}
		if i%9 == 8 {
			body := rdbgen.RawStr([]byte(fmt.Sprintf("return %d %% 7 -- 100%%", i)), rdbgen.LCanon)
			if i%2 == 0 {
				// a script body stored compressed (a repetitive comment compresses to overlapping references)
				body = rdbgen.LZFStr(bytes.Repeat([]byte("-- "), 12+i%5), "ref", 3, 9)
			}
			cur = append(cur, rdbgen.Aux(rdbgen.RawStr([]byte("lua"), rdbgen.LCanon), body))
		}
		if len(cur) >= 14 {
			files = append(files, cur)
			cur = nil
		}
	}
	if len(cur) > 0 {
		files = append(files, cur)
	}
	return files
}

// c17Expected renders the lines the statement asks for, canonically.
func c17Expected(recs []rdbgen.Record) []string {
	var out []string
	b64 := func(b []byte) string { return base64.StdEncoding.EncodeToString(b) }
	for _, r := range recs {
		if r.Script {
			out = append(out, fmt.Sprintf("aux|lua|%s", r.Value))
			continue
		}
		pre := fmt.Sprintf("%d|%%s|%d|%s", r.DB, r.ExpireAt, b64(r.Key))
		switch r.Log.Kind {
		case "string":
			out = append(out, fmt.Sprintf(pre, "string")+"|"+b64(r.Log.Str))
		case "list":
			for i, e := range r.Log.Elems {
				out = append(out, fmt.Sprintf(pre, "list")+fmt.Sprintf("|%d|%s", i, b64(e)))
			}
		case "set":
			for _, e := range r.Log.Elems {
				out = append(out, fmt.Sprintf(pre, "set")+"|"+b64(e))
			}
		case "hash":
			for _, p := range r.Log.Pairs {
				out = append(out, fmt.Sprintf(pre, "hash")+"|"+b64(p[0])+"|"+b64(p[1]))
			}
		case "zset":
			for _, z := range r.Log.ZSet {
				out = append(out, fmt.Sprintf(pre, "zset")+"|"+b64(z.Member)+"|"+fmt.Sprint(z.Score+0))
			}
		}
	}
	sort.Strings(out)
	return out
}

// c17Stale is what an earlier decode of a larger file left in the output file.
func c17Stale() []byte {
	return bytes.Repeat([]byte(`{"db":15,"type":"string","expireat":0,"key":"stale-key-of-an-earlier-run","key64":"","value":"x","value64":""}`+"\n"), 3000)
}

// c17Parse turns the tool's output into the same canonical lines.
func c17Parse(output []byte) ([]string, string) {
	var out []string
	for _, line := range bytes.Split(output, []byte("\n")) {
		if len(line) == 0 {
			continue
		}
		var m map[string]interface{}
		dec := json.NewDecoder(bytes.NewReader(line))
		dec.UseNumber()
		if err := dec.Decode(&m); err != nil {
			return nil, fmt.Sprintf("output line is not JSON: %q", line)
		}
		s := func(k string) string {
			v, _ := m[k].(string)
			return v
		}
		num := func(k string) string { return fmt.Sprint(m[k]) }
		typ := s("type")
		if typ == "aux" {
			v := s("value64")
			if d, err := base64.StdEncoding.DecodeString(v); err == nil && strings.HasPrefix(string(d), "return") {
				v = string(d)
			}
			out = append(out, fmt.Sprintf("aux|%s|%s", s("key"), v))
			continue
		}
		pre := fmt.Sprintf("%s|%s|%s|%s", num("db"), typ, num("expireat"), s("key64"))
		switch typ {
		case "string":
			out = append(out, pre+"|"+s("value64"))
		case "list":
			out = append(out, pre+"|"+num("index")+"|"+s("value64"))
		case "set":
			out = append(out, pre+"|"+s("member64"))
		case "hash":
			out = append(out, pre+"|"+s("field64")+"|"+s("value64"))
		case "zset":
			f, _ := m["score"].(json.Number).Float64()
			out = append(out, pre+"|"+s("member64")+"|"+fmt.Sprint(f+0))
		default:
			return nil, fmt.Sprintf("unknown line type %q", typ)
		}
	}
	sort.Strings(out)
	return out, ""
}

func c17Diff(want, got []string) string {
	i, j := 0, 0
	for i < len(want) || j < len(got) {
		switch {
		case j >= len(got) || (i < len(want) && want[i] < got[j]):
			return "missing line " + c17Show(want[i])
		case i >= len(want) || got[j] < want[i]:
			return "unexpected (or duplicated) line " + c17Show(got[j])
		}
		i++
		j++
	}
	return ""
}

func c17Show(s string) string {
	if len(s) > 150 {
		return s[:150] + "..."
	}
	return s
}

func c17RunFile(c c17Case, files [][]rdbgen.Item) (kind, what string) {
	items := files[c.File]
	file, recs := rdbgen.File(9, items)
	dir := os.Getenv("VERIF_SCRATCH")
	in := filepath.Join(dir, fmt.Sprintf("c17-%d.rdb", os.Getpid()))
	outp := filepath.Join(dir, fmt.Sprintf("c17-%d.json", os.Getpid()))
	if c.Sub == "slow" {
		// the input arrives slowly (a named pipe fed in two halves, more than one progress tick
		// apart): the once-per-second progress loop runs while the decode is still going on
		in += ".fifo"
		os.Remove(in)
		if err := syscall.Mkfifo(in, 0600); err != nil {
			return "", ""
		}
		go func() {
			f, err := os.OpenFile(in, os.O_WRONLY, 0)
			if err != nil {
				return
			}
			defer f.Close()
			f.Write(file[:len(file)/2])
			time.Sleep(1300 * time.Millisecond)
			f.Write(file[len(file)/2:])
		}()
	} else {
		ioutil.WriteFile(in, file, 0644)
	}
	defer os.Remove(in)
	defer os.Remove(outp)
	// the output of an earlier decode of a larger file is still there: the run replaces it
	ioutil.WriteFile(outp, c17Stale(), 0644)
	conf.Options.Parallel = c.Parallel
	aborted := false
	hook.SetExitHook(func(int) { aborted = true })
	defer hook.SetExitHook(nil)
	done := make(chan struct{})
	go func() {
		defer close(done)
		cmd := &CmdDecode{}
		cmd.decode(in, outp)
	}()
	<-done
	if aborted {
		return "abort", "decode aborts on a well-formed RDB"
	}
	data, err := ioutil.ReadFile(outp)
	if err != nil {
		return "no-output", err.Error()
	}
	got, why := c17Parse(data)
	if why != "" {
		return "format", why
	}
	if d := c17Diff(c17Expected(recs), got); d != "" {
		return "lines", d
	}
	if c.Parallel == 2 {
		return c17Main(c, files)
	}
	return "", ""
}

// c17Main: the whole decode command over two input files (this one and the next of the
// catalogue): output <prefix>.0 and <prefix>.1 must each hold exactly the lines of their input.
func c17Main(c c17Case, files [][]rdbgen.Item) (kind, what string) {
	dir := os.Getenv("VERIF_SCRATCH")
	prefix := filepath.Join(dir, fmt.Sprintf("c17m-%d.json", os.Getpid()))
	var inputs []string
	var want [][]string
	for k := 0; k < 2; k++ {
		file, recs := rdbgen.File(9, files[(c.File+k)%len(files)])
		in := filepath.Join(dir, fmt.Sprintf("c17m-%d-%d.rdb", os.Getpid(), k))
		ioutil.WriteFile(in, file, 0644)
		defer os.Remove(in)
		defer os.Remove(fmt.Sprintf("%s.%d", prefix, k))
		ioutil.WriteFile(fmt.Sprintf("%s.%d", prefix, k), c17Stale(), 0644)
		inputs = append(inputs, in)
		want = append(want, c17Expected(recs))
	}
	conf.Options.SourceRdbInput, conf.Options.TargetRdbOutput = inputs, prefix
	// as the start-up checks leave it for decode: source.rdb.parallel defaults to the number of inputs
	conf.Options.SourceRdbParallel = len(inputs)
	if c.File%2 == 1 {
		conf.Options.SourceRdbParallel = 1
	}
	defer func() {
		conf.Options.SourceRdbInput, conf.Options.TargetRdbOutput, conf.Options.SourceRdbParallel = nil, "", 0
	}()
	aborted := false
	hook.SetExitHook(func(int) { aborted = true })
	defer hook.SetExitHook(nil)
	done := make(chan struct{})
	go func() {
		defer close(done)
		(&CmdDecode{}).Main()
	}()
	<-done
	if aborted {
		return "abort", "the decode command aborts on well-formed RDBs"
	}
	for k := 0; k < 2; k++ {
		data, err := ioutil.ReadFile(fmt.Sprintf("%s.%d", prefix, k))
		if err != nil {
			return "no-output", fmt.Sprintf("decode command, input %d: %v", k, err)
		}
		got, why := c17Parse(data)
		if why != "" {
			return "format", fmt.Sprintf("decode command, output %d: %s", k, why)
		}
		if d := c17Diff(want[k], got); d != "" {
			return "lines", fmt.Sprintf("decode command, output %d: %s", k, d)
		}
	}
	return "", ""
}

// c17Sched drives decoderMain workers on channels the harness owns: every order of feeding
// entries and draining results, with the workers run to quiescence in between.
func c17Sched(t *testing.T, c c17Case, files [][]rdbgen.Item, ch *seqx.Chooser) (kind, what string, trace []string) {
	var items []rdbgen.Item
	if c.File == -1 {
		// one key whose decoded text exceeds the 8 MB writer buffer, followed by a small key
		items = c17BigItems()
	} else {
		items = files[c.File][:6]
	}
	file, recs := rdbgen.File(9, items)
	var entries []*rdb.BinEntry
	l := rdb.NewLoader(bytes.NewReader(file))
	l.Header()
	for {
		e, err := l.NextBinEntry()
		if err != nil || e == nil {
			break
		}
		entries = append(entries, e)
	}
	if len(entries) > 3 {
		entries, recs = entries[:3], recs[:3]
	}
	aborted := false
	hook.SetExitHook(func(int) { aborted = true })
	defer hook.SetExitHook(nil)
	var out []byte
	synctest.Test(t, func(t *testing.T) {
		ipipe := make(chan *rdb.BinEntry)
		opipe := make(chan string)
		cmd := &CmdDecode{}
		var exitedN int32
		for i := 0; i < c.Parallel; i++ {
			go func() {
				defer atomic.AddInt32(&exitedN, 1) // also when the worker ends through the exit hook
				cmd.decoderMain(ipipe, opipe)
			}()
		}
		exitedNow := func() int { return int(atomic.LoadInt32(&exitedN)) }
		fed, closed := 0, false
		for step := 0; step < 4*len(entries)+8; step++ {
			synctest.Wait()
			if closed && exitedNow() == c.Parallel {
				break
			}
			switch ch.Choose(2) {
			case 0: // feed (or close when everything is fed)
				if fed < len(entries) {
					select {
					case ipipe <- entries[fed]:
						fed++
						trace = append(trace, "feed")
					default:
						trace = append(trace, "feed-blocked")
					}
				} else if !closed {
					close(ipipe)
					closed = true
					trace = append(trace, "close")
				}
			case 1: // drain one result
				select {
				case s := <-opipe:
					out = append(out, s...)
					trace = append(trace, "drain")
				default:
					trace = append(trace, "drain-empty")
				}
			}
		}
		// finish: feed the rest, close, drain everything
		for guard := 0; (fed < len(entries) || !closed || exitedNow() < c.Parallel) && guard < 10000; guard++ {
			synctest.Wait()
			if exitedNow() == c.Parallel && (closed || aborted) {
				break
			}
			select {
			case s := <-opipe:
				out = append(out, s...)
				continue
			default:
			}
			if fed < len(entries) {
				select {
				case ipipe <- entries[fed]:
					fed++
				default:
				}
			} else if !closed {
				close(ipipe)
				closed = true
			} else if aborted {
				break
			}
		}
	})
	if aborted {
		return "abort", "a decode worker aborts", trace
	}
	got, why := c17Parse(out)
	if why != "" {
		return "format", why, trace
	}
	if d := c17Diff(c17Expected(recs), got); d != "" {
		return "lines", d, trace
	}
	return "", "", trace
}

func TestVerif_C17(t *testing.T) {
	defer ev.Flush("C17")
	log.SetLevel(log.LEVEL_NONE)
	files := c17Files()
	if ev.ReplayFile() != "" {
		var c c17Case
		if err := ev.LoadReplay(&c); err != nil {
			t.Fatal(err)
		}
		switch c.Sub {
		case "file":
			k, w := c17RunFile(c, files)
			t.Logf("replay %+v -> %s %s", c, k, w)
			if k != "" {
				ev.Violate("C17|"+k, w, c)
			}
		case "sched":
			k, w, tr := c17Sched(t, c, files, seqx.NewReplay(c.Trail))
			t.Logf("replay %+v %v -> %s %s", c, tr, k, w)
		case "inf":
			k, w := c17Inf()
			t.Logf("replay inf -> %s %s", k, w)
		}
		return
	}
	ev.Bound("files", len(files))
	var n, idx, trans int64
	for fi := range files {
		for _, par := range []int{1, 2, 3, 8} {
			idx++
			if !ev.Mine(idx) {
				continue
			}
			if ev.OverBudget() {
				ev.Cap("time budget")
				break
			}
			c := c17Case{Sub: "file", File: fi, Parallel: par}
			k, w := c17RunFile(c, files)
			n++
			if k != "" {
				ev.Violate("C17|"+k, fmt.Sprintf("%s (file %d of the catalogue, parallel=%d)", w, fi, par), c)
			}
			ev.Outcome("file:" + k)
			h := ev.HashS(fmt.Sprint(c))
			ev.State(h)
			ev.Nontrivial(h)
			if fi == 3 && par == 2 {
				var names []string
				for _, it := range files[fi] {
					names = append(names, it.Name)
				}
				ev.Sample("file", map[string]interface{}{"items": names, "parallel": par})
			}
		}
	}
	// owned-channel schedules
	for _, fi := range []int{0, 3, 7} {
		if fi >= len(files) {
			continue
		}
		for par := 1; par <= 3; par++ {
			idx++
			if !ev.Mine(idx) {
				continue
			}
			c := c17Case{Sub: "sched", File: fi, Parallel: par}
			cnt, complete := seqx.Explore(seqx.Options{MaxDev: -1, Stop: ev.OverBudget}, func(ch *seqx.Chooser) {
				k, w, tr := c17Sched(t, c, files, ch)
				trans += int64(len(tr))
				if k != "" {
					cc := c
					cc.Trail = append([]int{}, ch.Trail...)
					ev.Violate("C17|sched-"+k, fmt.Sprintf("%s (workers=%d, feed/drain order %v)", w, par, tr), cc)
				}
				ev.State(ev.HashS(fmt.Sprint(fi, par, tr)))
				ev.Nontrivial(ev.HashS(fmt.Sprint(fi, par, tr)))
			})
			n += int64(cnt)
			if !complete {
				ev.Cap("time budget in feed/drain orders")
			}
			ev.Count("feed_drain_orders", int64(cnt))
		}
	}
	// a key whose text is larger than the 8 MB output buffer, decoded next to small keys by 2 and 3
	// workers: feed/drain orders with at most 1 (thorough: 2) deviations from "feed first"
	for par := 2; par <= 3; par++ {
		idx++
		if !ev.Mine(idx) {
			continue
		}
		c := c17Case{Sub: "sched", File: -1, Parallel: par}
		d := 1
		if ev.Thorough() {
			d = 2
		}
		cnt, complete := seqx.Explore(seqx.Options{MaxDev: d, Stop: ev.OverBudget}, func(ch *seqx.Chooser) {
			k, w, tr := c17Sched(t, c, files, ch)
			trans += int64(len(tr))
			if k != "" {
				cc := c
				cc.Trail = append([]int{}, ch.Trail...)
				if len(w) > 600 {
					w = w[:600] + "..."
				}
				ev.Violate("C17|sched-"+k+"|big-key", fmt.Sprintf("%s (one key of more than 8 MB of text, workers=%d, feed/drain order %v)", w, par, tr), cc)
			}
			ev.State(ev.HashS(fmt.Sprint("big", par, tr)))
			ev.Nontrivial(ev.HashS(fmt.Sprint("big", par, tr)))
		})
		n += int64(cnt)
		if !complete {
			ev.Cap("time budget in big-key feed/drain orders")
		}
		ev.Count("big_key_feed_drain_orders", int64(cnt))
	}
	// infinite scores
	idx++
	if ev.Mine(idx) {
		k, w := c17Inf()
		n++
		if k != "" {
			ev.Violate("C17|"+k, w, c17Case{Sub: "inf"})
		}
	}
	ev.Eval(n)
	ev.Trace(n)
	ev.Trans(trans + n)
}

var c17Big []rdbgen.Item

func c17BigItems() []rdbgen.Item {
	if c17Big == nil {
		raw := func(x string) rdbgen.Str { return rdbgen.RawStr([]byte(x), rdbgen.LCanon) }
		members := make([]rdbgen.Str, 0, 80000)
		for i := 0; i < 80000; i++ {
			members = append(members, raw(fmt.Sprintf("member-%017d", i)))
		}
		c17Big = []rdbgen.Item{rdbgen.SelectDB(0, rdbgen.LCanon),
			rdbgen.Key(raw("bigset"), rdbgen.SetVal(members, rdbgen.LCanon), rdbgen.KeyOpts{}),
			rdbgen.Key(raw("small"), rdbgen.StringVal(raw("v")), rdbgen.KeyOpts{}),
			rdbgen.Key(raw("small2"), rdbgen.StringVal(raw("w")), rdbgen.KeyOpts{})}
	}
	return c17Big
}

// c17Inf: a sorted set with infinite scores must be printed like any other.
func c17Inf() (string, string) {
	m := rdbgen.RawStr([]byte("m"), rdbgen.LCanon)
	v := rdbgen.ZSetVal([]rdbgen.Str{m, rdbgen.RawStr([]byte("n"), rdbgen.LCanon)}, []float64{math.Inf(1), 2}, true)
	files := [][]rdbgen.Item{{rdbgen.Key(rdbgen.RawStr([]byte("z"), rdbgen.LCanon), v, rdbgen.KeyOpts{})}}
	k, w := c17RunFile(c17Case{Sub: "file", File: 0, Parallel: 1}, files)
	if k != "" {
		return "infinite-score-" + k, "sorted set with score +inf: " + w
	}
	return "", ""
}

// TestVerif_C17Race: the decode command with 4 workers on an RDB whose values need fixed-width
// numbers (binary sorted-set scores, integer-encoded strings, 14-bit lengths), free-running. The
// output must hold exactly the lines of the file; a -race build reports storage shared between
// the workers.
func TestVerif_C17Race(t *testing.T) {
	defer ev.Flush("C17")
	log.SetLevel(log.LEVEL_NONE)
	if ev.ReplayFile() != "" {
		return
	}
	si, _ := ev.ShardInfo()
	if si != 0 {
		return
	}
	raw := func(s string) rdbgen.Str { return rdbgen.RawStr([]byte(s), rdbgen.LCanon) }
	items := []rdbgen.Item{rdbgen.SelectDB(0, rdbgen.LCanon)}
	for i := 0; i < 300; i++ {
		var members []rdbgen.Str
		var scores []float64
		for m := 0; m < 12; m++ {
			members = append(members, raw(fmt.Sprintf("m%03d-%02d", i, m)))
			scores = append(scores, float64(i*1000+m)+0.25)
		}
		items = append(items, rdbgen.Key(raw(fmt.Sprintf("zset:%03d", i)), rdbgen.ZSetVal(members, scores, true), rdbgen.KeyOpts{}))
		items = append(items, rdbgen.Key(raw(fmt.Sprintf("int:%03d", i)), rdbgen.StringVal(rdbgen.IntStr(int64(100000+i), 32)), rdbgen.KeyOpts{}))
	}
	c := c17Case{Sub: "race", File: 0, Parallel: 4}
	for round := 0; round < 3; round++ {
		k, w := c17RunFile(c, [][]rdbgen.Item{items})
		if k != "" {
			if len(w) > 500 {
				w = w[:500] + "..."
			}
			ev.Violate("C17|concurrent-workers|"+k, "decode with 4 workers: "+w, c)
			break
		}
	}
	// the same input arriving over more than one progress tick
	slow := c17Case{Sub: "slow", File: 0, Parallel: 4}
	if k, w := c17RunFile(slow, [][]rdbgen.Item{items}); k != "" {
		if len(w) > 500 {
			w = w[:500] + "..."
		}
		ev.Violate("C17|slow-input|"+k, "decode with 4 workers, input arriving in two halves 1.3 s apart: "+w, slow)
	}
	ev.Eval(4)
	ev.Trace(4)
	ev.Trans(4)
	ev.StatesAdd(4)
	ev.NontrivialAdd(4)
}
