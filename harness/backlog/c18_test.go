// C18: the backlog ring returns the bytes written at an offset, or says they are gone.
// Package backlog. Unexported identifiers used: Backlog.{mu,rwait,store}, buffer.dataRange
// (state inspection only).
package backlog

import (
	"fmt"
	"io/ioutil"
	"os"
	"sort"
	"strings"
	"testing"
	"time"

	"github.com/alibaba/RedisShake/pkg/libs/errors"
	"github.com/alibaba/RedisShake/verifrt/ev"
	"github.com/alibaba/RedisShake/verifrt/lockx"
	"github.com/alibaba/RedisShake/verifrt/seqx"
	"github.com/alibaba/RedisShake/verifrt/vsync"
)

func c18Byte(i uint64) byte { return byte(i%251 + 1) }

var errC18Custom = fmt.Errorf("closer's own error")

func c18ErrClass(err error) (cls string) {
	if err == nil {
		return ""
	}
	defer func() {
		if x := recover(); x != nil {
			cls = fmt.Sprintf("other:unusable error value %#v (inspecting it panics: %v)", err, x)
		}
	}()
	switch errors.Cause(err) {
	case ErrClosedBacklog:
		return "closed"
	case ErrInvalidOffset:
		return "invalid"
	case errC18Custom:
		return "custom"
	}
	return "other:" + err.Error()
}

// ops: "W<k>"  "A<k>@<off>" ReadAt  "N" NewReader  "r<k>" Reader.Read  "S<off>" SeekTo  "V" IsValid
//
//	"D" DataRange  "C" Close  "E" CloseWithError  "r*<k>x<n>" read with the reader until n bytes or error
type c18Event struct {
	Thread     int
	Op         string
	N          int
	Err        string
	Off        uint64 // offset the read was made at
	Data       []byte
	Rpos, Wpos uint64
	Bool       bool
	Start, End int
	WposStart  uint64 // model write position when the op started / ended (harness bookkeeping)
	WposEnd    uint64
}

type c18Scenario struct {
	Name    string     `json:"name"`
	Cap     int        `json:"cap"`
	File    bool       `json:"file"`
	Threads [][]string `json:"threads"`
	// Base: absolute position the backlog starts from (the state after Base bytes were written long
	// ago); every offset of the scenario is relative to it. Non-zero bases put the ring across the
	// 2^32 boundary without writing 4 GiB first.
	Base uint64 `json:"base,omitempty"`
}

type c18Run struct {
	sc         c18Scenario
	bl         *Backlog
	readers    map[int]*Reader
	seq        int
	events     []c18Event
	wpos       uint64 // bytes accepted so far
	closedAt   int
	closeStart int
	faultStart int // seq number at which the file fault (op X) began, 0: none
	zeros      [][2]uint64 // absolute [from,to) ranges written with zero bytes (op Z)
	maxW       uint64
	peek       bool // read the write position from the store (only when executions are serialised)
	tmp        *os.File
}

func c18New(sc c18Scenario) *c18Run {
	run := &c18Run{sc: sc, readers: map[int]*Reader{}}
	if sc.File {
		f, err := ioutil.TempFile(os.Getenv("VERIF_SCRATCH"), "c18backlog")
		if err != nil {
			panic(err)
		}
		run.tmp = f
		run.bl = NewFileBacklog(sc.Cap, f)
	} else {
		run.bl = NewSize(sc.Cap)
	}
	if sc.Base != 0 {
		switch st := run.bl.store.(type) {
		case *memBuffer:
			st.wpos = sc.Base
		case *fileBuffer:
			st.wpos = sc.Base
		default:
			panic("c18: unknown store type")
		}
		run.wpos, run.maxW = sc.Base, sc.Base
	}
	return run
}

// curW is the number of bytes the backlog has accepted so far. Under the scheduler (and in
// sequential words) it is read from the store, because a Write publishes its data chunk by chunk
// before it returns.
func (run *c18Run) curW() uint64 {
	if !run.peek {
		return run.wpos
	}
	_, w := run.bl.store.dataRange()
	if w > run.maxW {
		run.maxW = w
	}
	return run.maxW
}

func (run *c18Run) cleanup() {
	if run.tmp != nil {
		run.tmp.Close()
		os.Remove(run.tmp.Name())
	}
}

// expect: the byte written at absolute offset off
func (run *c18Run) expect(off uint64) byte {
	for _, z := range run.zeros {
		if off >= z[0] && off < z[1] {
			return 0
		}
	}
	return c18Byte(off)
}

func c18Atoi(s string) uint64 {
	var n uint64
	for _, c := range s {
		if c < '0' || c > '9' {
			break
		}
		n = n*10 + uint64(c-'0')
	}
	return n
}

func (run *c18Run) do(thread int, op string) {
	if strings.HasPrefix(op, "r*") {
		parts := strings.Split(op[2:], "x")
		k, total := int(c18Atoi(parts[0])), int(c18Atoi(parts[1]))
		got := 0
		for i := 0; i < 12 && got < total; i++ {
			before := len(run.events)
			run.do(thread, fmt.Sprintf("r%d", k))
			e := run.events[before]
			got += e.N
			if e.Err != "" {
				return
			}
		}
		return
	}
	e := c18Event{Thread: thread, Op: op, WposStart: run.curW()}
	run.seq++
	e.Start = run.seq
	switch op[0] {
	case 'W', 'Z':
		// W: the position-derived pattern (never a zero byte); Z: k zero bytes (sparse values, padding)
		k := int(c18Atoi(op[1:]))
		b := make([]byte, k)
		if op[0] == 'W' {
			for i := range b {
				b[i] = c18Byte(run.wpos + uint64(i))
			}
		} else {
			run.zeros = append(run.zeros, [2]uint64{run.wpos, run.wpos + uint64(k)})
		}
		n, err := run.bl.Write(b)
		run.wpos += uint64(n)
		e.N, e.Err = n, c18ErrClass(err)
	case 'A':
		parts := strings.Split(op[1:], "@")
		k, off := int(c18Atoi(parts[0])), run.sc.Base+c18Atoi(parts[1])
		b := make([]byte, k)
		n, err := run.bl.ReadAt(b, off)
		e.N, e.Err, e.Data, e.Off = n, c18ErrClass(err), b[:n], off
	case 'N':
		r, err := run.bl.NewReader()
		e.Err = c18ErrClass(err)
		if r != nil {
			run.readers[thread] = r
			e.Off = r.Offset()
		}
	case 'r':
		r := run.readers[thread]
		if r == nil {
			e.Err = "noreader"
			break
		}
		k := int(c18Atoi(op[1:]))
		b := make([]byte, k)
		e.Off = r.Offset()
		n, err := r.Read(b)
		e.N, e.Err, e.Data = n, c18ErrClass(err), b[:n]
		if r.Offset() != e.Off+uint64(n) {
			e.Err = "other:reader offset did not advance by n"
		}
	case 'S':
		r := run.readers[thread]
		if r == nil {
			e.Err = "noreader"
			break
		}
		e.Off = run.sc.Base + c18Atoi(op[1:])
		e.Bool = r.SeekTo(e.Off)
	case 'V':
		r := run.readers[thread]
		if r == nil {
			e.Err = "noreader"
			break
		}
		e.Off = r.Offset()
		e.Bool = r.IsValid()
	case 'D':
		rp, wp, err := run.bl.DataRange()
		e.Rpos, e.Wpos, e.Err = rp, wp, c18ErrClass(err)
	case 'C':
		if run.closeStart == 0 {
			run.closeStart = e.Start
		}
		e.Err = c18ErrClass(run.bl.Close())
		if run.closedAt == 0 {
			run.closedAt = run.seq + 1
		}
	case 'E':
		if run.closeStart == 0 {
			run.closeStart = e.Start
		}
		e.Err = c18ErrClass(run.bl.CloseWithError(errC18Custom))
		if run.closedAt == 0 {
			run.closedAt = run.seq + 1
		}
	case 'X':
		// environment fault: the file under a file-backed backlog stops working (its handle is
		// closed underneath the backlog); no-op for the memory backend
		if run.faultStart == 0 {
			run.faultStart = e.Start
		}
		if run.tmp != nil {
			run.tmp.Close()
		}
	default:
		panic("bad op " + op)
	}
	run.seq++
	e.End = run.seq
	e.WposEnd = run.curW()
	run.events = append(run.events, e)
}

func (run *c18Run) capacity() uint64 {
	if run.sc.File {
		return uint64(align(run.sc.Cap, FileSizeAlign))
	}
	return uint64(align(run.sc.Cap, BuffSizeAlign))
}

// judge checks every event against the full log. In a concurrent run an op overlaps writes
// and the close, so each rule is stated over the interval [WposStart, WposEnd].
func (run *c18Run) judge() (string, string) {
	capn := run.capacity()
	closedEnd := 0 // seq number at which the first close had completed
	for _, e := range run.events {
		if (e.Op == "C" || e.Op == "E") && closedEnd == 0 {
			closedEnd = e.End
		}
	}
	for _, e := range run.events {
		afterClose := closedEnd != 0 && e.Start > closedEnd
		mayBeClosed := run.closeStart != 0 && e.End > run.closeStart
		// after the file fault a read or write may fail with the I/O error (never with wrong bytes)
		ioFault := run.sc.File && run.faultStart != 0 && e.End > run.faultStart && strings.HasPrefix(e.Err, "other:")
		switch e.Op[0] {
		case 'W', 'Z':
			k := int(c18Atoi(e.Op[1:]))
			if afterClose {
				if e.Err == "" && k > 0 {
					return "write-after-close", fmt.Sprintf("Write(%d) after Close succeeded", k)
				}
				continue
			}
			if e.Err != "" && !mayBeClosed && !ioFault {
				return "write-error", fmt.Sprintf("Write(%d) failed with %q", k, e.Err)
			}
			if e.Err == "" && e.N != k {
				return "short-write", fmt.Sprintf("Write(%d) returned %d", k, e.N)
			}
		case 'A', 'r':
			if e.Err == "noreader" {
				continue
			}
			k := int(c18Atoi(e.Op[1:]))
			if afterClose {
				if e.Err == "" && k > 0 {
					return "read-after-close", fmt.Sprintf("%s after Close returned %d bytes and no error", e.Op, e.N)
				}
				continue
			}
			switch {
			case e.Err == "":
				if k == 0 {
					continue
				}
				if e.N < 1 || e.N > k {
					return "read-count", fmt.Sprintf("%s at offset %d returned n=%d without error", e.Op, e.Off, e.N)
				}
				if e.Off+uint64(e.N) > e.WposEnd {
					return "read-beyond-write", fmt.Sprintf("%s at offset %d returned %d bytes but only %d were ever written", e.Op, e.Off, e.N, e.WposEnd)
				}
				for i := 0; i < e.N; i++ {
					if e.Data[i] != run.expect(e.Off+uint64(i)) {
						return "wrong-bytes", fmt.Sprintf("%s at offset %d: byte %d is not the byte written at offset %d (write position %d..%d, capacity %d)", e.Op, e.Off, i, e.Off+uint64(i), e.WposStart, e.WposEnd, capn)
					}
				}
			case e.Err == "invalid":
				// legitimate iff at some moment of the call the offset was outside [wpos-cap, wpos]
				overwritten := e.Off+capn < e.WposEnd
				beyond := e.Off > e.WposStart
				if !overwritten && !beyond {
					return "spurious-invalid", fmt.Sprintf("%s at offset %d fails with invalid offset although the write position was %d..%d and the capacity is %d", e.Op, e.Off, e.WposStart, e.WposEnd, capn)
				}
			case e.Err == "closed" || e.Err == "custom":
				if !mayBeClosed {
					return "spurious-closed", fmt.Sprintf("%s fails with %q before any Close", e.Op, e.Err)
				}
			case ioFault:
			default:
				return "read-error", fmt.Sprintf("%s fails with %q", e.Op, e.Err)
			}
			// a read of overwritten or future data must not succeed
			if e.Err == "" && k > 0 && (e.Off+capn < e.WposStart || e.Off > e.WposEnd) {
				return "stale-read", fmt.Sprintf("%s at offset %d succeeded although the offset was outside the data range for the whole call (write position %d..%d, capacity %d)", e.Op, e.Off, e.WposStart, e.WposEnd, capn)
			}
		case 'D':
			if afterClose || mayBeClosed {
				continue
			}
			if e.Err != "" {
				return "datarange-error", "DataRange failed with " + e.Err
			}
			okAt := func(w uint64) bool {
				lo := uint64(0)
				if w > capn {
					lo = w - capn
				}
				return e.Wpos == w && e.Rpos == lo
			}
			if e.WposStart == e.WposEnd && !okAt(e.WposStart) {
				return "datarange", fmt.Sprintf("DataRange = (%d,%d) with %d bytes written and capacity %d", e.Rpos, e.Wpos, e.WposStart, capn)
			}
			if e.Wpos < e.WposStart || e.Wpos > e.WposEnd {
				return "datarange", fmt.Sprintf("DataRange = (%d,%d) while the write position moved %d..%d", e.Rpos, e.Wpos, e.WposStart, e.WposEnd)
			}
		case 'S', 'V':
			if e.Err == "noreader" || afterClose || mayBeClosed || e.WposStart != e.WposEnd {
				continue
			}
			w := e.WposStart
			lo := uint64(0)
			if w > capn {
				lo = w - capn
			}
			want := e.Off >= lo && e.Off <= w
			if e.Bool != want {
				return "validity", fmt.Sprintf("%s: reader at offset %d reported valid=%v with data range (%d,%d)", e.Op, e.Off, e.Bool, lo, w)
			}
		case 'N':
			if afterClose || mayBeClosed {
				continue
			}
			if e.Err != "" || e.Off < e.WposStart || e.Off > e.WposEnd {
				return "newreader", fmt.Sprintf("NewReader: err=%q offset=%d, write position %d..%d", e.Err, e.Off, e.WposStart, e.WposEnd)
			}
		}
	}
	return "", ""
}

func (run *c18Run) describe() string {
	var s []string
	for _, e := range run.events {
		x := fmt.Sprintf("t%d:%s", e.Thread, e.Op)
		switch e.Op[0] {
		case 'A', 'r', 'W':
			x += fmt.Sprintf("->%d", e.N)
		case 'D':
			x += fmt.Sprintf("->(%d,%d)", e.Rpos, e.Wpos)
		case 'S', 'V':
			x += fmt.Sprintf("->%v", e.Bool)
		}
		if e.Err != "" {
			x += "," + e.Err
		}
		s = append(s, x)
	}
	return strings.Join(s, " ")
}

type c18Replay struct {
	Sub      string      `json:"sub"`
	Scenario c18Scenario `json:"scenario"`
	Trail    []int       `json:"trail"`
	Word     []string    `json:"word"`
}

func c18Wpos(bl *Backlog) uint64 {
	_, w := bl.store.dataRange()
	return w
}

func c18Exec(sc c18Scenario, ch *seqx.Chooser) (string, *lockx.Exec, *c18Run) {
	run := c18New(sc)
	run.peek = true
	defer run.cleanup()
	var waitBad string
	waitedAt := map[int]uint64{}
	setup := func(s *lockx.Sched) {
		s.OnWait = func(c *vsync.Cond, thread int) {
			waitedAt[thread] = run.curW()
			// a reader may only block when its offset equals the write position; the offset is
			// the one of the event in progress: check through the log afterwards (judge), here
			// only that the backlog is open
			if run.closedAt != 0 && run.seq >= run.closedAt {
				waitBad = "a reader blocks although the backlog is closed"
			}
		}
		s.OnStep = func() {
			if run.bl.mu.Owner != 0 || waitBad != "" {
				return
			}
			for _, id := range run.bl.rwait.Waiters {
				if run.curW() != waitedAt[id] {
					waitBad = fmt.Sprintf("reader thread %d stays blocked (no wake-up pending) although the write position moved from %d to %d", id, waitedAt[id], run.curW())
				}
				if run.closedAt != 0 && run.seq >= run.closedAt {
					waitBad = fmt.Sprintf("reader thread %d stays blocked (no wake-up pending) after Close", id)
				}
			}
		}
	}
	var bodies []func()
	for ti, ops := range sc.Threads {
		ti, ops := ti, ops
		bodies = append(bodies, func() {
			for _, op := range ops {
				run.do(ti, op)
			}
		})
	}
	ex := lockx.Run(ch, 4000, setup, bodies)
	switch {
	case len(ex.Panics) > 0:
		return "panic|" + ex.Panics[0], ex, run
	case waitBad != "":
		return "lost-wakeup|" + waitBad, ex, run
	case ex.Deadlock:
		return "deadlock|" + strings.Join(ex.Blocked, ", ") + " and nobody can wake them", ex, run
	case ex.Livelock:
		return "livelock|no termination within 4000 scheduling steps", ex, run
	}
	if k, w := run.judge(); k != "" {
		return k + "|" + w, ex, run
	}
	return "", ex, run
}

func c18Scenarios(capn int, file bool) []c18Scenario {
	c := func(d int) string { return fmt.Sprint(capn + d) }
	mk := func(name string, th ...[]string) c18Scenario {
		return c18Scenario{Name: name, Cap: capn, File: file, Threads: th}
	}
	return []c18Scenario{
		mk("writer w(cap+1),w1,close | follower reads from 0", []string{"W" + c(1), "W1", "C"}, []string{"A" + c(0) + "@0", "A" + c(0) + "@1", "A5@" + c(2)}),
		mk("writer w3,w(cap),close | new reader follows", []string{"W3", "W" + c(0), "C"}, []string{"N", "r*" + c(0) + "x" + c(3), "V"}),
		mk("writer w(cap),w(cap),w1 | lagging reader at 0 and at cap", []string{"W" + c(0), "W" + c(0), "W1"}, []string{"A7@0", "A7@" + c(0), "A7@0", "D"}),
		mk("writer w1,w1 | two waiting readers | closer", []string{"W1", "W1"}, []string{"A4@2"}, []string{"N", "r4", "r4", "r4"}, []string{"E"}),
		mk("writer w(2cap+1) | reader seeks around the range", []string{"W" + fmt.Sprint(2*capn+1)}, []string{"N", "S0", "r9", "S" + c(0), "r9", "S" + c(1), "r9", "D", "V"}),
		mk("close races with blocked readers", []string{"W2", "C"}, []string{"A1@2"}, []string{"A1@3", "A1@2"}),
		mk("writer w(cap-1),w2,w(cap-1) | reader at wrap", []string{"W" + c(-1), "W2", "W" + c(-1)}, []string{"A" + c(0) + "@1", "A" + c(0) + "@" + c(-1), "A" + c(0) + "@" + c(0), "D"}),
		mk("zero-length and future offsets", []string{"W1", "W0", "W1"}, []string{"A0@0", "A0@9", "A1@9", "A1@1", "N", "r0", "V"}),
		// several readers parked at the write position and fewer writes than readers: one write
		// must release every one of them (nobody closes)
		mk("writer w1 | three readers wait at offset 0", []string{"W1"}, []string{"A1@0"}, []string{"A1@0"}, []string{"A1@0"}),
		mk("writer w2,w1 | readers wait at 0, at 1 and at 2", []string{"W2", "W1"}, []string{"A1@0"}, []string{"A2@1"}, []string{"A1@2"}),
	}
}

// c18FaultScenarios: the file under a file-backed backlog fails (environment answer "I/O error")
// before the backlog is closed; Close may report the error, but it still ends every waiting reader.
func c18FaultScenarios(capn int) []c18Scenario {
	mk := func(name string, th ...[]string) c18Scenario {
		return c18Scenario{Name: name, Cap: capn, File: true, Threads: th}
	}
	return []c18Scenario{
		mk("file fails, close | readers wait at the write position", []string{"W1", "X", "C"}, []string{"A1@1"}, []string{"N", "r4", "V"}),
		mk("file fails, close with error | reader waits, later calls", []string{"W2", "X", "E", "W1", "D"}, []string{"A2@2", "A1@0", "N"}),
	}
}

// c18SeqWord: sequential words against the reference log (ops that would block are skipped).
func c18SeqWord(capn int, file bool, base uint64, word []string) string {
	run := c18New(c18Scenario{Cap: capn, File: file, Base: base})
	run.peek = true
	defer run.cleanup()
	closed := false
	for i, op := range word {
		if !closed {
			// skip operations that would wait for data
			if op[0] == 'A' {
				parts := strings.Split(op[1:], "@")
				if c18Atoi(parts[0]) > 0 && base+c18Atoi(parts[1]) == run.wpos {
					return ""
				}
			}
			if op[0] == 'r' {
				if r := run.readers[0]; r != nil && c18Atoi(op[1:]) > 0 && r.Offset() == run.wpos {
					return ""
				}
			}
		}
		run.do(0, op)
		if op == "C" || op == "E" {
			closed = true
		}
		if k, w := run.judge(); k != "" {
			return fmt.Sprintf("step %d (%s): %s: %s", i, op, k, w)
		}
	}
	return ""
}

func TestVerif_C18(t *testing.T) {
	defer ev.Flush("C18")
	if ev.ReplayFile() != "" {
		var rp c18Replay
		if err := ev.LoadReplay(&rp); err != nil {
			t.Fatal(err)
		}
		if rp.Sub == "seq" {
			why := c18SeqWord(rp.Scenario.Cap, rp.Scenario.File, rp.Scenario.Base, rp.Word)
			t.Logf("replay word %v -> %q", rp.Word, why)
			if why != "" {
				ev.Violate("C18|sequential|replay", why, rp)
			}
			return
		}
		for i := 0; i < 2; i++ {
			v, ex, run := c18Exec(rp.Scenario, seqx.NewReplay(rp.Trail))
			t.Logf("replay schedule %s: %s -> %q", ex.Describe(), run.describe(), v)
			if v != "" {
				ev.Violate("C18|"+strings.SplitN(v, "|", 2)[0]+"|"+rp.Scenario.Name, v, rp)
			}
		}
		return
	}
	bound := 3
	if ev.Thorough() {
		bound = 5
	}
	ev.Bound("preemption_bound", bound)
	var n, trans int64
	scs := c18Scenarios(BuffSizeAlign, false)
	// a capacity that is not a power of two (ring arithmetic must not rely on masks)
	scs = append(scs, c18Scenarios(3*BuffSizeAlign, false)...)
	if ev.Thorough() {
		scs = append(scs, c18Scenarios(2*BuffSizeAlign, false)[:5]...)
		scs = append(scs, c18Scenarios(FileSizeAlign, true)[:3]...)
		scs = append(scs, c18Scenarios(3*FileSizeAlign, true)[:3]...)
	}
	scs = append(scs, c18FaultScenarios(FileSizeAlign)...)
	// the non-power-of-two ring started just below 2^32
	for _, sc := range c18Scenarios(3*BuffSizeAlign, false)[:7] {
		sc.Base = 1<<32 - 2
		sc.Name += " [from 2^32-2]"
		scs = append(scs, sc)
	}
	var idx int64
	for _, sc := range scs {
		sc := sc
		idx++
		if !ev.Mine(idx) {
			continue
		}
		b := bound
		if sc.File {
			b = 1
		}
		outcomes := map[string]bool{}
		cnt, complete := seqx.Explore(seqx.Options{MaxDev: b, Stop: ev.OverBudget}, func(ch *seqx.Chooser) {
			v, ex, run := c18Exec(sc, ch)
			trans += int64(ex.Steps)
			d := run.describe()
			if !outcomes[d] {
				outcomes[d] = true
				ev.State(ev.HashS(sc.Name + d))
			}
			if v != "" {
				parts := strings.SplitN(v, "|", 2)
				ev.Violate("C18|"+parts[0]+"|"+sc.Name, fmt.Sprintf("%s (scenario %s, capacity %d, schedule %s, events: %s)", parts[1], sc.Name, sc.Cap, ex.Describe(), d),
					c18Replay{Sub: "sched", Scenario: sc, Trail: append([]int{}, ch.Trail...)})
			}
		})
		n += int64(cnt)
		if !complete {
			ev.Cap("time budget in scenario " + sc.Name)
		}
		ev.Count("schedules:"+sc.Name, int64(cnt))
		ev.Count("distinct_histories:"+sc.Name, int64(len(outcomes)))
		ev.Nontrivial(ev.HashS(sc.Name))
		ev.Outcome(fmt.Sprintf("%d-histories", len(outcomes)))
		ev.Sample("scenario", map[string]interface{}{"scenario": sc, "schedules": cnt, "distinct_histories": len(outcomes)})
	}
	ev.Eval(n)
	ev.Trace(n)
	ev.Trans(trans)
	c18Seq()
}

func c18Seq() {
	maxLen := 4
	if ev.Thorough() {
		maxLen = 5
	}
	ev.Bound("sequential_word_length", maxLen)
	defer func() { errors.TraceEnabled = true }()
	for _, cfg := range []struct {
		capn     int
		file     bool
		traceOff bool // errors.TraceEnabled = false: errors travel unwrapped
		base     uint64
	}{{BuffSizeAlign, false, false, 0}, {3 * BuffSizeAlign, false, false, 0}, {FileSizeAlign, true, false, 0}, {3 * FileSizeAlign, true, false, 0}, {BuffSizeAlign, false, true, 0},
		// a ring that is not a power of two, started just below 2^32 (the words cross the boundary)
		{3 * BuffSizeAlign, false, false, 1<<32 - BuffSizeAlign - 1}, {3 * FileSizeAlign, true, false, 1<<32 - 5}} {
		if cfg.file && !ev.Thorough() {
			continue
		}
		errors.TraceEnabled = !cfg.traceOff
		real := uint64(align(cfg.capn, BuffSizeAlign))
		ml := maxLen
		if cfg.traceOff {
			ml = maxLen - 1
		}
		if cfg.file {
			real = uint64(align(cfg.capn, FileSizeAlign))
			ml = 3
		}
		sizes := []uint64{0, 1, real - 1, real, real + 1, 2*real + 1}
		var n int64
		capped := false
		var word []string
		var rec func(wpos uint64, depth int, idx int64)
		rec = func(wpos uint64, depth int, idx int64) {
			if depth == 2 && !ev.Mine(idx) {
				return
			}
			if capped {
				return
			}
			if n%2048 == 2047 && ev.OverBudget() {
				capped = true
				ev.Cap("time budget in sequential words")
				return
			}
			if depth > 0 && (depth >= 2 || ev.Mine(0)) {
				if why := c18SeqWord(cfg.capn, cfg.file, cfg.base, word); why != "" {
					kind := strings.SplitN(strings.SplitN(why, ": ", 3)[1], ":", 2)[0]
					ev.Violate("C18|sequential|"+kind, fmt.Sprintf("backlog of capacity %d (file=%v, started at absolute position %d), operations %v (offsets relative to the start): %s", real, cfg.file, cfg.base, word, why),
						c18Replay{Sub: "seq", Scenario: c18Scenario{Cap: cfg.capn, File: cfg.file, Base: cfg.base}, Word: append([]string{}, word...)})
				}
				n++
			}
			if depth == ml {
				return
			}
			i := int64(0)
			try := func(op string, nw uint64) {
				word = append(word, op)
				rec(nw, depth+1, idx*64+i)
				word = word[:len(word)-1]
				i++
			}
			for _, k := range sizes {
				try(fmt.Sprintf("W%d", k), wpos+k)
			}
			// offsets around the data range of the model
			lo := uint64(0)
			if wpos > real {
				lo = wpos - real
			}
			offs := map[uint64]bool{0: true, lo: true, lo + 1: true, wpos: true, wpos + 1: true}
			if cfg.base == 0 {
				// offsets at the top of the uint64 range (an "unknown offset" -1, wpos - size before the first wrap)
				offs[^uint64(0)] = true
				offs[wpos-real] = true
				offs[wpos-real+1] = true
			}
			if lo > 0 {
				offs[lo-1] = true
			}
			if wpos > 0 {
				offs[wpos-1] = true
			}
			var offList []uint64
			for off := range offs {
				offList = append(offList, off)
			}
			sort.Slice(offList, func(a, b int) bool { return offList[a] < offList[b] })
			for _, off := range offList {
				for _, k := range []uint64{1, real + 1} {
					try(fmt.Sprintf("A%d@%d", k, off), wpos)
				}
				try(fmt.Sprintf("S%d", off), wpos)
			}
			try("N", wpos)
			try("r1", wpos)
			try(fmt.Sprintf("r%d", real), wpos)
			try("V", wpos)
			try("D", wpos)
			try("C", wpos)
		}
		rec(0, 0, 0)
		ev.Eval(n)
		ev.Trace(n)
		ev.Trans(n)
		ev.StatesAdd(n)
		ev.NontrivialAdd(n)
		ev.Count(fmt.Sprintf("sequential_words_cap%d_file%v_base%d_traceoff%v", real, cfg.file, cfg.base, cfg.traceOff), n)
	}
	// runs of zero bytes written over the previous lap's data (both backends, quick tier too)
	if si, _ := ev.ShardInfo(); si == 0 {
		var n int64
		for _, cfg := range []struct {
			capn int
			file bool
		}{{BuffSizeAlign, false}, {3 * BuffSizeAlign, false}, {FileSizeAlign, true}, {3 * FileSizeAlign, true}} {
			real := uint64(align(cfg.capn, BuffSizeAlign))
			if cfg.file {
				real = uint64(align(cfg.capn, FileSizeAlign))
			}
			f := func(format string, a ...interface{}) string { return fmt.Sprintf(format, a...) }
			for _, word := range [][]string{
				{f("W%d", real), "Z8192", f("A4096@%d", real), f("A4096@%d", real+4096), f("A4096@%d", real+4095), "D"},
				{f("W%d", real-100), "Z4296", f("A100@%d", real-100), f("A4096@%d", real), f("A200@%d", real+4000)},
				{f("W%d", real), "Z4095", "Z4096", "Z4097", f("A4095@%d", real), f("A4096@%d", real+4095), f("A4097@%d", real+8191), "N", "Z1", "r1"},
				{f("W%d", real+5), f("Z%d", real), f("A4096@%d", real+5), f("A4096@%d", 2*real-4096+5), "W3", f("A3@%d", 2*real+5)},
			} {
				if why := c18SeqWord(cfg.capn, cfg.file, 0, word); why != "" {
					kind := strings.SplitN(strings.SplitN(why, ": ", 3)[1], ":", 2)[0]
					ev.Violate("C18|zero-runs|"+kind, fmt.Sprintf("backlog of capacity %d (file=%v), operations %v (Z<k> writes k zero bytes): %s", real, cfg.file, word, why),
						c18Replay{Sub: "seq", Scenario: c18Scenario{Cap: cfg.capn, File: cfg.file}, Word: append([]string{}, word...)})
				}
				n++
			}
		}
		ev.Eval(n)
		ev.Trace(n)
		ev.Trans(n * 6)
		ev.StatesAdd(n)
		ev.NontrivialAdd(n)
		ev.Count("zero_run_words", n)
	}
	ev.Sample("sequential", []string{"W4095", "N", "W2", "A4097@1", "S1", "r1", "D"})
}

// TestVerif_C18Race: the same scenario bodies free-running with the real sync package under -race.
func TestVerif_C18Race(t *testing.T) {
	defer ev.Flush("C18")
	scs := c18Scenarios(BuffSizeAlign, false)
	var n int64
	for i := 0; i < 60; i++ {
		for si, sc := range scs {
			if !ev.Mine(int64(i*len(scs) + si)) {
				continue
			}
			run := c18New(sc)
			done := make(chan struct{}, len(sc.Threads))
			for ti, ops := range sc.Threads {
				ti, ops := ti, ops
				own := &c18Run{sc: sc, bl: run.bl, readers: map[int]*Reader{}}
				go func() {
					for _, op := range ops {
						own.do(ti, op)
					}
					done <- struct{}{}
				}()
			}
			stuck := false
			for range sc.Threads {
				select {
				case <-done:
				case <-time.After(30 * time.Second):
					stuck = true
				}
				if stuck {
					break
				}
			}
			if stuck {
				ev.Violate("C18|free-running-blocked|"+sc.Name, "free-running execution with the real sync package did not terminate within 30 s (scenario "+sc.Name+")", c18Replay{Sub: "race", Scenario: sc})
				ev.Eval(n)
				return
			}
			n++
		}
	}
	ev.Eval(n)
}
