// C01: RDB parsing delivers every key exactly, whatever its encoding. Package rdb.
// Unexported identifiers used: Loader.rdbReader.{remainMember,lastReadCount,totMemberCount},
// Loader.db (state dump only).
package rdb

import (
	"bytes"
	"encoding/binary"
	"fmt"
	"io"
	"testing"

	"github.com/alibaba/RedisShake/pkg/libs/log"
	"github.com/alibaba/RedisShake/verifrt/crcref"
	"github.com/alibaba/RedisShake/verifrt/ev"
	"github.com/alibaba/RedisShake/verifrt/rdbcat"
	"github.com/alibaba/RedisShake/verifrt/rdbgen"
)

type oneByteReader struct {
	b   []byte
	pos int
}

func (r *oneByteReader) Read(p []byte) (int, error) {
	if r.pos >= len(r.b) {
		return 0, io.EOF
	}
	if len(p) == 0 {
		return 0, nil
	}
	p[0] = r.b[r.pos]
	r.pos++
	return 1, nil
}

type c01Case struct {
	Sub     string `json:"sub"`
	Version int    `json:"version"`
	Level   int    `json:"level"`
	Word    []int  `json:"word"`
	Mode    string `json:"mode"`
	Names   []string
}

func c01State(l *Loader) string {
	return fmt.Sprintf("db=%d remain=%d last=%d tot=%d", l.db, l.remainMember, l.lastReadCount, l.totMemberCount)
}

// c01Run parses the file with the real loader and compares with the expected records.
func c01Run(c c01Case, items []rdbgen.Item) string {
	file, want := rdbgen.File(c.Version, items)
	var rd io.Reader = bytes.NewReader(file)
	if c.Mode == "byte" {
		rd = &oneByteReader{b: file}
	}
	fail := func(kind string, culprit int, what string) string {
		name := "eof"
		if culprit >= 0 && culprit < len(items) {
			name = items[culprit].Name
		}
		if kind == "error" {
			// class by error text (digits normalised), not by the item blamed
			msg := []byte(what)
			if i := bytes.Index(msg, []byte(": ")); i >= 0 {
				msg = msg[i+2:]
			}
			for i := range msg {
				if msg[i] >= '0' && msg[i] <= '9' {
					msg[i] = 'N'
				}
			}
			if len(msg) > 60 {
				msg = msg[:60]
			}
			name = string(msg)
		}
		ev.Violate("C01|"+kind+"|"+name, fmt.Sprintf("%s (file of items %v, version %d, %s reader)", what, c.Names, c.Version, c.Mode), c)
		return kind
	}
	// index of the item that produces record i
	recItem := []int{}
	for i, it := range items {
		if it.Kind == "key" || it.Kind == "lua" {
			recItem = append(recItem, i)
		}
	}
	l := NewLoader(rd)
	if err := l.Header(); err != nil {
		return fail("header", -1, "header rejected: "+err.Error())
	}
	var held []*BinEntry
	for i := 0; ; i++ {
		e, err := l.NextBinEntry()
		ev.State(ev.HashS(c01State(l)))
		if err != nil {
			cul := len(items) - 1
			if i < len(recItem) {
				cul = recItem[i]
				// the error may come from a metadata item in front of the record
				for j := cul - 1; j >= 0 && items[j].Kind != "key" && items[j].Kind != "lua"; j-- {
					if items[j].Kind == "moduleaux" {
						cul = j
					}
				}
			} else {
				for j := len(items) - 1; j >= 0 && items[j].Kind != "key" && items[j].Kind != "lua"; j-- {
					if items[j].Kind == "moduleaux" {
						cul = j
					}
				}
			}
			return fail("error", cul, fmt.Sprintf("parser error at record %d: %v", i, err))
		}
		if e == nil {
			if i != len(want) {
				return fail("missing-records", recItem[i], fmt.Sprintf("parser delivered %d records, file holds %d", i, len(want)))
			}
			break
		}
		if i >= len(want) {
			return fail("extra-record", len(items)-1, fmt.Sprintf("parser delivered an extra record key=%q type=%d", e.Key, e.Type))
		}
		w := want[i]
		cul := recItem[i]
		switch {
		case e.DB != w.DB:
			return fail("db", cul, fmt.Sprintf("record %d (key %q): db %d, expected %d", i, w.Key, e.DB, w.DB))
		case !bytes.Equal(e.Key, w.Key):
			return fail("key", cul, fmt.Sprintf("record %d: key %q, expected %q", i, e.Key, w.Key))
		case e.Type != w.Type:
			return fail("type", cul, fmt.Sprintf("record %d (key %q): type %d, expected %d", i, w.Key, e.Type, w.Type))
		case e.ExpireAt != w.ExpireAt:
			return fail("expire", cul, fmt.Sprintf("record %d (key %q): expire-at %d ms, expected %d", i, w.Key, e.ExpireAt, w.ExpireAt))
		case e.IdleTime != w.Idle:
			return fail("idle", cul, fmt.Sprintf("record %d (key %q): idle %d, expected %d", i, w.Key, e.IdleTime, w.Idle))
		case e.Freq != w.Freq:
			return fail("freq", cul, fmt.Sprintf("record %d (key %q): freq %d, expected %d", i, w.Key, e.Freq, w.Freq))
		case !bytes.Equal(e.Value, w.Value):
			return fail("value", cul, fmt.Sprintf("record %d (key %q, %s): value payload differs from type|file bytes|version|crc64 (got %d bytes, expected %d)", i, w.Key, items[cul].Name, len(e.Value), len(w.Value)))
		case !w.Script && (e.RealMemberCount != 0 || e.NeedReadLen != 1):
			return fail("chunk-flags", cul, fmt.Sprintf("record %d (key %q): unchunked value flagged RealMemberCount=%d NeedReadLen=%d", i, w.Key, e.RealMemberCount, e.NeedReadLen))
		}
		held = append(held, e)
	}
	if c.Version >= 5 {
		if err := l.Footer(); err != nil {
			return fail("footer", -1, "end-of-file checksum of an intact file rejected: "+err.Error())
		}
	}
	// the RDB is followed by the live command stream on the same reader: after the end-of-file
	// step exactly the file's bytes must have been taken from the source, not one less or more
	left := -1
	switch x := rd.(type) {
	case *bytes.Reader:
		left = x.Len()
	case *oneByteReader:
		left = len(x.b) - x.pos
	}
	if left > 0 {
		return fail("bytes-left-unread", -1, fmt.Sprintf("after the last record and the end-of-file step %d bytes of the RDB (version %d) are still unread: they would be parsed as commands", left, c.Version))
	}
	// the records are queued for the workers while the parser goes on: what was delivered earlier
	// must still be what it was once the whole file has been read
	for i, e := range held {
		w := want[i]
		if e.DB != w.DB || !bytes.Equal(e.Key, w.Key) || !bytes.Equal(e.Value, w.Value) || e.ExpireAt != w.ExpireAt || e.Type != w.Type {
			return fail("record-changed-later", recItem[i], fmt.Sprintf("record %d (key %q) was correct when delivered and differs after the rest of the file was parsed (storage shared with later records)", i, w.Key))
		}
	}
	return "ok"
}

func c01Word(c c01Case, sigma []rdbgen.Item) ([]rdbgen.Item, c01Case) {
	var items []rdbgen.Item
	c.Names = nil
	for _, w := range c.Word {
		items = append(items, sigma[w])
		c.Names = append(c.Names, sigma[w].Name)
	}
	return items, c
}

func TestVerif_C01(t *testing.T) {
	defer ev.Flush("C01")
	log.SetLevel(log.LEVEL_NONE)
	if !crcref.SelfCheck() {
		t.Fatal("reference CRC self check failed")
	}
	sigma := [2][]rdbgen.Item{rdbcat.Items(0), rdbcat.Items(1)}
	if ev.ReplayFile() != "" {
		var c c01Case
		if err := ev.LoadReplay(&c); err != nil {
			t.Fatal(err)
		}
		if c.Sub == "big" {
			t.Logf("replay big %v -> %s", c.Word, c01Big(c.Word[0], c.Word[1:]))
			return
		}
		if c.Level < 0 {
			// key-name form sweeps: re-run all of them (a few hundred executions)
			t.Logf("replay key-name form sweeps: %d executions", c01Special(func() bool { return true }))
			return
		}
		items, c2 := c01Word(c, sigma[c.Level])
		t.Logf("replay %v -> %s", c2.Names, c01Run(c2, items))
		return
	}
	ev.Bound("sigma_full", len(sigma[1]))
	ev.Bound("sigma_reduced", len(sigma[0]))
	var n, nontriv int64
	run := func(level int, word []int, version int) {
		for _, mode := range []string{"whole", "byte"} {
			c := c01Case{Sub: "word", Version: version, Level: level, Word: append([]int{}, word...), Mode: mode}
			items, c2 := c01Word(c, sigma[level])
			o := c01Run(c2, items)
			n++
			ev.Outcome(o)
			hasKey := false
			for _, it := range items {
				if it.Kind == "key" || it.Kind == "lua" {
					hasKey = true
				}
			}
			if hasKey {
				nontriv++
			}
		}
	}
	var idx int64
	mine := func() bool { idx++; return ev.Mine(idx) }
	// length 0 and 1 over the full alphabet, every header version
	for v := 1; v <= 9; v++ {
		if mine() {
			run(1, nil, v)
		}
		for i := range sigma[1] {
			if mine() {
				run(1, []int{i}, v)
			}
		}
	}
	sp := c01Special(mine)
	n += sp
	nontriv += sp
	// length 2 over the full alphabet (thorough) / full x reduced both ways (quick)
	full := len(sigma[1])
	if ev.Thorough() {
		ev.Bound("words", "len<=1 full alphabet x versions 1..9; len 2 full x full; len 3 reduced^3; len 4 over 12 representatives")
		for i := 0; i < full; i++ {
			for j := 0; j < full; j++ {
				if mine() {
					run(1, []int{i, j}, 9)
				}
			}
			if i%16 == 0 && ev.OverBudget() {
				ev.Cap("time budget in pairs")
				break
			}
		}
	} else {
		ev.Bound("words", "len<=1 full alphabet x versions 1..9; len 2 full x representatives (both orders); len 3 reduced^3")
		reps := c01Reps(sigma[1])
		for i := 0; i < full; i++ {
			for _, j := range reps {
				if mine() {
					run(1, []int{i, j}, 9)
				}
				if mine() {
					run(1, []int{j, i}, 9)
				}
			}
		}
	}
	red := len(sigma[0])
	for i := 0; i < red; i++ {
		for j := 0; j < red; j++ {
			for k := 0; k < red; k++ {
				if mine() {
					run(0, []int{i, j, k}, 9)
				}
			}
		}
	}
	if ev.Thorough() {
		r4 := 12
		if r4 > red {
			r4 = red
		}
		for a := 0; a < r4; a++ {
			for b := 0; b < r4; b++ {
				for c := 0; c < r4; c++ {
					for d := 0; d < r4; d++ {
						if mine() {
							run(0, []int{a, b, c, d}, 7)
						}
					}
				}
			}
		}
	}
	ev.Eval(n)
	ev.Trans(n)
	ev.Trace(n)
	ev.StatesAdd(n / 2)
	ev.NontrivialAdd(nontriv / 2)
	ev.Sample("word", map[string]interface{}{"items": []string{sigma[1][0].Name, sigma[1][len(sigma[1])-1].Name}, "version": 9})

	// hashes beyond the 16 MiB chunk limit
	bigs := [][]int{{17, 0}, {8, 9, 0}, {6, 6, 6, 0}, {17, 17, 0}, {-1, 0}, {17, 17, 17}, {3, 0}}
	for bi, b := range bigs {
		for exp := 0; exp < 2; exp++ {
			if mine() {
				o := c01Big(exp, b)
				ev.Outcome("big:" + o)
				ev.Eval(1)
				ev.Trace(1)
				ev.Nontrivial(ev.HashS(fmt.Sprint("big", bi, exp)))
			}
		}
	}
	ev.Sample("big", map[string]interface{}{"pair_sizes_MiB": bigs[1], "note": "hash whose payload crosses 16 MiB after pair 2 of 3, followed by SELECT 3 and a string key"})
}

// c01Reps picks one representative index per item kind / value type from the full alphabet.
func c01Reps(sigma []rdbgen.Item) []int {
	seen := map[string]bool{}
	var out []int
	for i, it := range sigma {
		k := it.Kind
		if it.Kind == "key" {
			k = fmt.Sprintf("key%d/%v/%v/%v", it.Val.Type, it.ExpireAt != 0, it.Idle != 0, it.Freq != 0)
		}
		if !seen[k] {
			seen[k] = true
			out = append(out, i)
		}
	}
	return out
}

// c01Pieces delivers its input in reads of at most max bytes.
type c01Pieces struct {
	r   io.Reader
	max int
}

func (p *c01Pieces) Read(b []byte) (int, error) {
	if len(b) > p.max {
		b = b[:p.max]
	}
	return p.r.Read(b)
}

// c01Big builds a hash whose pairs have the given value sizes (MiB; 0 = tiny, -1 = sized so
// that the payload ends exactly on the 16 MiB limit after the first pair) and checks the
// chunk records.
func c01Big(exp int, sizes []int) string {
	c := c01Case{Sub: "big", Word: append([]int{exp}, sizes...)}
	const limit = 16 * 1024 * 1024
	var elems []rdbgen.Str
	for i, s := range sizes {
		n := 3
		if s > 0 {
			n = s * 1024 * 1024
		}
		f := rdbgen.RawStr([]byte(fmt.Sprintf("f%d", i)), rdbgen.LCanon)
		if s == -1 {
			// count(1) + field raw (1+2) + value header (5) + value = limit
			n = limit - 1 - len(f.Raw) - 5
		}
		v := make([]byte, n)
		for k := 0; k < n; k += 4093 {
			v[k] = byte(k)
		}
		elems = append(elems, f, rdbgen.RawStr(v, rdbgen.LCanon))
	}
	hv := rdbgen.HashVal(elems, rdbgen.LCanon)
	opts := rdbgen.KeyOpts{}
	if exp == 1 {
		opts = rdbgen.KeyOpts{ExpKind: "ms", ExpAt: 4102444800123, HasIdle: true, Idle: 9}
	}
	after := rdbgen.Key(rdbgen.RawStr([]byte("after"), rdbgen.LCanon), rdbgen.StringVal(rdbgen.RawStr([]byte("v"), rdbgen.LCanon)), rdbgen.KeyOpts{})
	items := []rdbgen.Item{rdbgen.SelectDB(2, rdbgen.LCanon), rdbgen.Key(rdbgen.RawStr([]byte("big"), rdbgen.LCanon), hv, opts), rdbgen.SelectDB(3, rdbgen.LCanon), after}
	file, want := rdbgen.File(9, items)
	fail := func(kind, what string) string {
		ev.Violate("C01|big-"+kind, fmt.Sprintf("%s (hash with pair sizes %v MiB, expiry=%d)", what, sizes, exp), c)
		return kind
	}
	// the input arrives as a socket or a pipe delivers it: no read returns more than 1 MiB - 3
	// bytes (with an expiry: 64 KiB + 1), however much is asked for
	var src io.Reader = &c01Pieces{r: bytes.NewReader(file), max: 1<<20 - 3}
	if exp == 1 {
		src = &c01Pieces{r: bytes.NewReader(file), max: 1<<16 + 1}
	}
	l := NewLoader(src)
	if err := l.Header(); err != nil {
		return fail("header", err.Error())
	}
	// expected chunking by the stated rule: a record ends after a pair once more than 16 MiB
	// of the value have been read, unless that pair is the last one
	var body []byte
	chunks := 0
	var members uint32
	first := true
	for {
		e, err := l.NextBinEntry()
		if err != nil {
			return fail("error", err.Error())
		}
		if e == nil {
			return fail("missing", "end of file before the hash was complete")
		}
		if string(e.Key) != "big" || e.DB != 2 || e.Type != rdbgen.THash {
			return fail("record", fmt.Sprintf("chunk %d: key %q db %d type %d", chunks, e.Key, e.DB, e.Type))
		}
		if first && (e.ExpireAt != want[0].ExpireAt || e.IdleTime != want[0].Idle) {
			return fail("expire", fmt.Sprintf("first record: expire %d idle %d, expected %d %d", e.ExpireAt, e.IdleTime, want[0].ExpireAt, want[0].Idle))
		}
		if !first && e.ExpireAt != 0 && e.ExpireAt != want[0].ExpireAt {
			return fail("expire", fmt.Sprintf("continuation record: expire %d", e.ExpireAt))
		}
		p := e.Value
		if len(p) < 11 || p[0] != rdbgen.THash {
			return fail("payload", "payload too short or wrong type byte")
		}
		if crcref.CRC64(0, p[:len(p)-8]) != binary.LittleEndian.Uint64(p[len(p)-8:]) {
			return fail("payload-crc", fmt.Sprintf("chunk %d: payload checksum does not verify", chunks))
		}
		if (first && e.NeedReadLen != 1) || (!first && e.NeedReadLen != 0) {
			return fail("chunk-protocol", fmt.Sprintf("chunk %d: NeedReadLen=%d", chunks, e.NeedReadLen))
		}
		body = append(body, p[1:len(p)-10]...)
		chunks++
		members += e.RealMemberCount
		first = false
		// a delivered record belongs to its consumer (the restore routine renames e.Key for hash-tag
		// replacement and for some cloud sources): what the consumer does to it must not show in
		// the records delivered later
		e.Key = []byte("renamed-by-the-consumer")
		e.DB = 77
		if len(body) >= len(hv.Raw) {
			if chunks == 1 && e.RealMemberCount != 0 {
				return fail("chunk-protocol", "single record flagged as chunk")
			}
			break
		}
		if len(p) <= limit {
			return fail("chunk-size", fmt.Sprintf("chunk %d was cut at %d bytes, below the 16 MiB limit", chunks, len(p)))
		}
	}
	if !bytes.Equal(body, hv.Raw) {
		return fail("concat", fmt.Sprintf("concatenated chunk payloads (%d bytes) differ from the hash in the file (%d bytes)", len(body), len(hv.Raw)))
	}
	if chunks > 1 && int(members) != len(sizes) {
		return fail("chunk-protocol", fmt.Sprintf("chunk member counts add up to %d, hash has %d pairs", members, len(sizes)))
	}
	e, err := l.NextBinEntry()
	if err != nil || e == nil {
		return fail("after", fmt.Sprintf("key after the big hash not delivered: %v", err))
	}
	w := want[1]
	if e.DB != 3 || string(e.Key) != "after" || e.Type != 0 || !bytes.Equal(e.Value, w.Value) || e.ExpireAt != 0 || e.IdleTime != 0 || e.NeedReadLen != 1 || e.RealMemberCount != 0 {
		return fail("after", fmt.Sprintf("key after the big hash is wrong: db=%d key=%q type=%d expire=%d", e.DB, e.Key, e.Type, e.ExpireAt))
	}
	if e, err := l.NextBinEntry(); e != nil || err != nil {
		return fail("after", "extra record at the end")
	}
	if err := l.Footer(); err != nil {
		return fail("footer", err.Error())
	}
	return fmt.Sprintf("ok-%dchunks", chunks)
}

// c01IntNames: integer-encoded key names around every width boundary and sign.
func c01IntNames() []rdbgen.Str {
	var out []rdbgen.Str
	for _, v := range []int64{-128, -127, -2, -1, 0, 1, 126, 127} {
		out = append(out, rdbgen.IntStr(v, 8), rdbgen.IntStr(v, 16), rdbgen.IntStr(v, 32))
	}
	for _, v := range []int64{-32768, -32767, -129, 128, 255, 256, 32766, 32767} {
		out = append(out, rdbgen.IntStr(v, 16), rdbgen.IntStr(v, 32))
	}
	for _, v := range []int64{-2147483648, -2147483647, -32769, 32768, 65535, 65536, 2147483646, 2147483647} {
		out = append(out, rdbgen.IntStr(v, 32))
	}
	return out
}

func c01Short(b []byte) string {
	if len(b) > 16 {
		return fmt.Sprintf("%q..(%d)", b[:16], len(b))
	}
	return fmt.Sprintf("%q", b)
}

// c01Special: sweeps over key-name forms (outside the word alphabet). Returns executions run.
func c01Special(mine func() bool) (n int64) {
	// every LZF back-reference relation as key name and as value (the parser decompresses key names)
	for _, ls := range rdbcat.LZFFamily() {
		if mine() {
			it := rdbgen.Key(ls, rdbgen.StringVal(ls), rdbgen.KeyOpts{})
			for _, mode := range []string{"whole", "byte"} {
				c := c01Case{Sub: "lzf", Version: 9, Level: -1, Mode: mode, Names: []string{it.Name + ":" + ls.Form}}
				o := c01Run(c, []rdbgen.Item{it})
				n++
					ev.Outcome(o)
			}
		}
	}
	// every string form of the catalog (integer encodings at both ends of each width, length-form
	// boundaries, LZF) as key name: values are delivered as file bytes, key names are decoded
	for _, ks := range append(rdbcat.Strings(), c01IntNames()...) {
		if mine() {
			it := rdbgen.Key(ks, rdbgen.StringVal(rdbgen.RawStr([]byte("v"), rdbgen.LCanon)), rdbgen.KeyOpts{})
			c := c01Case{Sub: "keyform", Version: 9, Level: -1, Mode: "whole", Names: []string{it.Name + ":" + ks.Form + ":" + c01Short(ks.Val)}}
			o := c01Run(c, []rdbgen.Item{it})
			n++
			ev.Outcome(o)
		}
	}
	// all those key-name forms together in one file, in both orders: every record is held until the
	// file has been parsed (a decoded key name must not share storage with a later one)
	for _, rev := range []bool{false, true} {
		if !mine() {
			continue
		}
		forms := append(append(rdbcat.LZFFamily(), rdbcat.Strings()...), c01IntNames()...)
		var its []rdbgen.Item
		var names []string
		for i := range forms {
			ks := forms[i]
			if rev {
				ks = forms[len(forms)-1-i]
			}
			it := rdbgen.Key(ks, rdbgen.StringVal(rdbgen.RawStr([]byte("v"), rdbgen.LCanon)), rdbgen.KeyOpts{})
			its = append(its, it)
			names = append(names, ks.Form)
		}
		c := c01Case{Sub: "keyforms-file", Version: 9, Level: -1, Mode: "whole", Names: names}
		o := c01Run(c, its)
		n++
		ev.Outcome(o)
	}
	return n
}
