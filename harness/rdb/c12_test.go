// C12: value and RDB-file serialisation round-trips through the parser. Package rdb.
package rdb

import (
	"io"
	"bytes"
	"fmt"
	"math"
	"sort"
	"strings"
	"sync"
	"testing"

	"github.com/alibaba/RedisShake/pkg/libs/log"
	"github.com/alibaba/RedisShake/verifrt/ev"
	"github.com/alibaba/RedisShake/verifrt/rdbcat"
	"github.com/alibaba/RedisShake/verifrt/rdbgen"
)

func c12Pattern(n int) []byte {
	out := make([]byte, n)
	for i := range out {
		out[i] = byte('a' + i%23)
	}
	return out
}

var c12Strings = [][]byte{[]byte(""), []byte("0"), []byte("-0"), []byte("+1"), []byte("01"), []byte(" 1"), []byte("1 "), []byte("127"), []byte("128"),
	[]byte("-128"), []byte("-129"), []byte("32767"), []byte("32768"), []byte("-32768"), []byte("-32769"), []byte("2147483647"), []byte("2147483648"),
	[]byte("-2147483648"), []byte("-2147483649"), []byte("9223372036854775807"), []byte("-9223372036854775808"), []byte("9223372036854775808"),
	[]byte("1e3"), []byte("0x10"), []byte("12345678901"), []byte("a"), []byte("\x00\xff\r\n"), c12Pattern(63), c12Pattern(64), c12Pattern(16383), c12Pattern(16384),
	bytes.Repeat([]byte("ab"), 50), bytes.Repeat([]byte{0}, 300)}

func sameFloat(a, b float64) bool {
	if math.IsNaN(a) || math.IsNaN(b) {
		return math.IsNaN(a) && math.IsNaN(b)
	}
	return a == b && math.Signbit(a) == math.Signbit(b)
}

// c12Same compares two decoded objects element by element, in order.
func c12Same(a, b interface{}) bool {
	switch x := a.(type) {
	case String:
		y, ok := b.(String)
		return ok && bytes.Equal(x, y)
	case List:
		y, ok := b.(List)
		if !ok || len(x) != len(y) {
			return false
		}
		for i := range x {
			if !bytes.Equal(x[i], y[i]) {
				return false
			}
		}
		return true
	case Set:
		y, ok := b.(Set)
		if !ok || len(x) != len(y) {
			return false
		}
		for i := range x {
			if !bytes.Equal(x[i], y[i]) {
				return false
			}
		}
		return true
	case Hash:
		y, ok := b.(Hash)
		if !ok || len(x) != len(y) {
			return false
		}
		for i := range x {
			if !bytes.Equal(x[i].Field, y[i].Field) || !bytes.Equal(x[i].Value, y[i].Value) {
				return false
			}
		}
		return true
	case ZSet:
		y, ok := b.(ZSet)
		if !ok || len(x) != len(y) {
			return false
		}
		for i := range x {
			if !bytes.Equal(x[i].Member, y[i].Member) || !sameFloat(x[i].Score, y[i].Score) {
				return false
			}
		}
		return true
	}
	return false
}

func c12Cut(s string) string {
	if len(s) > 300 {
		return s[:300] + fmt.Sprintf("... (%d bytes)", len(s))
	}
	return s
}

func c12Show(o interface{}) string {
	s := fmt.Sprintf("%T%q", o, o)
	switch x := o.(type) {
	case Hash:
		s = "Hash"
		for _, e := range x {
			s += fmt.Sprintf("{%q:%q}", e.Field, e.Value)
		}
	case ZSet:
		s = "ZSet"
		for _, e := range x {
			s += fmt.Sprintf("{%q:%v}", e.Member, e.Score)
		}
	}
	if len(s) > 200 {
		s = s[:200] + "..."
	}
	return s
}

type c12Case struct {
	Sub  string `json:"sub"`
	Kind string `json:"kind"`
	Idx  []int  `json:"idx"`
	Bits uint64 `json:"bits"`
}

func c12Obj(c c12Case) interface{} {
	el := func(i int) []byte { return c12Strings[c.Idx[i]] }
	switch c.Kind {
	case "string":
		return String(el(0))
	case "list":
		l := List{}
		for i := range c.Idx {
			l = append(l, el(i))
		}
		return l
	case "set":
		l := Set{}
		for i := range c.Idx {
			l = append(l, el(i))
		}
		return l
	case "hash":
		h := Hash{}
		for i := 0; i+1 < len(c.Idx); i += 2 {
			h = append(h, &HashElement{Field: el(i), Value: el(i + 1)})
		}
		return h
	case "zset":
		z := ZSet{}
		for i := range c.Idx {
			z = append(z, &ZSetElement{Member: el(i), Score: float64(i) + 0.5})
		}
		return z
	case "score":
		return ZSet{&ZSetElement{Member: []byte("m"), Score: math.Float64frombits(c.Bits)}}
	}
	return nil
}

// Payloads handed out earlier must stay what they were while later values are encoded (a caller
// keeps them: BinEntry.Value is queued and sent later). The last 48 results are held, each with a
// private copy, and compared when they leave the window and at the end.
type c12HeldT struct {
	p, cp []byte
	desc  string
	c     c12Case
}

var c12Held []c12HeldT

func c12Hold(p []byte, desc string, c c12Case) {
	c12Held = append(c12Held, c12HeldT{p, append([]byte{}, p...), desc, c})
	if len(c12Held) > 48 {
		c12CheckHeld(1)
	}
}

func c12CheckHeld(n int) {
	for ; n > 0 && len(c12Held) > 0; n-- {
		h := c12Held[0]
		c12Held = c12Held[1:]
		if !bytes.Equal(h.p, h.cp) {
			ev.Violate("C12|result-overwritten", fmt.Sprintf("the payload returned for %s was changed by later calls (the returned slice aliases reused storage)", h.desc), h.c)
		}
	}
}

func c12RoundTrip(c c12Case) {
	obj := c12Obj(c)
	p, err := EncodeDump(obj)
	if err != nil {
		ev.Violate("C12|encode-error|"+c.Kind, fmt.Sprintf("EncodeDump(%s) fails: %v", c12Show(obj), err), c)
		return
	}
	c12Hold(p, "EncodeDump("+c12Show(obj)+")", c)
	back, err := DecodeDump(p)
	if err != nil {
		ev.Violate("C12|decode-error|"+c.Kind, fmt.Sprintf("DecodeDump(EncodeDump(%s)) fails: %v", c12Show(obj), err), c)
		return
	}
	// an empty collection decodes to a nil slice of its type
	if !c12Same(obj, back) {
		ev.Violate("C12|roundtrip|"+c.Kind, fmt.Sprintf("EncodeDump->DecodeDump of %s returns %s", c12Show(obj), c12Show(back)), c)
	}
}

// c12Logical compares what DecodeDump returns with the logical value the generator built.
func c12Logical(o interface{}, lg *rdbgen.Logical) string {
	switch lg.Kind {
	case "string":
		x, ok := o.(String)
		if !ok || !bytes.Equal(x, lg.Str) {
			return "string differs"
		}
	case "list":
		x, ok := o.(List)
		if !ok || len(x) != len(lg.Elems) {
			return fmt.Sprintf("list length %d, expected %d", len(x), len(lg.Elems))
		}
		for i := range x {
			if !bytes.Equal(x[i], lg.Elems[i]) {
				return fmt.Sprintf("list element %d is %q, expected %q", i, x[i], lg.Elems[i])
			}
		}
	case "set":
		x, ok := o.(Set)
		if !ok || len(x) != len(lg.Elems) {
			return fmt.Sprintf("set size %d, expected %d", len(x), len(lg.Elems))
		}
		a, b := []string{}, []string{}
		for i := range x {
			a = append(a, string(x[i]))
			b = append(b, string(lg.Elems[i]))
		}
		sort.Strings(a)
		sort.Strings(b)
		if strings.Join(a, "\x00") != strings.Join(b, "\x00") {
			return fmt.Sprintf("set members %q, expected %q", a, b)
		}
	case "hash":
		x, ok := o.(Hash)
		if !ok || len(x) != len(lg.Pairs) {
			return fmt.Sprintf("hash size %d, expected %d", len(x), len(lg.Pairs))
		}
		for i := range x {
			if !bytes.Equal(x[i].Field, lg.Pairs[i][0]) || !bytes.Equal(x[i].Value, lg.Pairs[i][1]) {
				return fmt.Sprintf("hash pair %d is %q=%q, expected %q=%q", i, x[i].Field, x[i].Value, lg.Pairs[i][0], lg.Pairs[i][1])
			}
		}
	case "zset":
		x, ok := o.(ZSet)
		if !ok || len(x) != len(lg.ZSet) {
			return fmt.Sprintf("zset size %d, expected %d", len(x), len(lg.ZSet))
		}
		for i := range x {
			if !bytes.Equal(x[i].Member, lg.ZSet[i].Member) || !sameFloat(x[i].Score, lg.ZSet[i].Score) {
				return fmt.Sprintf("zset element %d is %q:%v, expected %q:%v", i, x[i].Member, x[i].Score, lg.ZSet[i].Member, lg.ZSet[i].Score)
			}
		}
	}
	return ""
}

func c12Compact(i int, vals []*rdbgen.Value) {
	v := vals[i]
	c := c12Case{Sub: "compact", Kind: v.Name, Idx: []int{i}}
	key := rdbgen.RawStr([]byte("k"), rdbgen.LCanon)
	file, _ := rdbgen.File(9, []rdbgen.Item{rdbgen.Key(key, v, rdbgen.KeyOpts{})})
	l := NewLoader(bytes.NewReader(file))
	if err := l.Header(); err != nil {
		return
	}
	e, err := l.NextBinEntry()
	if err != nil || e == nil {
		return // C01's business
	}
	var o interface{}
	func() {
		defer func() {
			if x := recover(); x != nil {
				err = fmt.Errorf("go panic: %v", x)
			}
		}()
		o, err = DecodeDump(e.Value)
	}()
	if err != nil {
		ev.Violate("C12|compact-decode-error|"+v.Name, fmt.Sprintf("payload the parser produced for %s cannot be decoded: %v", v.Name, err), c)
		return
	}
	if why := c12Logical(o, v.Log); why != "" {
		ev.Violate("C12|compact-value|"+v.Name, fmt.Sprintf("payload the parser produced for %s decodes to a different logical value: %s", v.Name, why), c)
	}
	// the entry conversion helpers agree
	oe, err := e.ObjEntry()
	if err != nil || !c12Same(oe.Value, o) || oe.DB != e.DB || !bytes.Equal(oe.Key, e.Key) || oe.ExpireAt != e.ExpireAt {
		ev.Violate("C12|objentry|"+v.Name, fmt.Sprintf("BinEntry.ObjEntry of %s: %v", v.Name, err), c)
		return
	}
	be, err := oe.BinEntry()
	if err != nil {
		ev.Violate("C12|binentry|"+v.Name, fmt.Sprintf("ObjEntry.BinEntry of %s: %v", v.Name, err), c)
		return
	}
	c12Hold(be.Value, "ObjEntry.BinEntry of "+v.Name, c)
	o2, err := DecodeDump(be.Value)
	if err != nil || !c12Same(o2, o) {
		ev.Violate("C12|binentry-roundtrip|"+v.Name, fmt.Sprintf("ObjEntry.BinEntry of %s re-decodes differently (%v)", v.Name, err), c)
	}
}

type c12Rec struct {
	DB     uint32
	Key    int
	Expire uint64
	Obj    int
}

func c12FileObjs() []interface{} {
	return []interface{}{String("v"), String("12345"), List{[]byte("a"), []byte("-1")}, Set{[]byte("x")},
		Hash{&HashElement{[]byte("f"), []byte("1")}, &HashElement{[]byte(""), []byte("")}},
		ZSet{&ZSetElement{[]byte("m"), math.Inf(-1)}, &ZSetElement{[]byte("n"), 1.5}}, List{}, Hash{}}
}

func c12File(recs []c12Rec) {
	objs := c12FileObjs()
	// object indexes 8 and 9: a string of 1.5 MiB and a list with an element of 1.2 MiB; a file
	// that holds one of them is read the way a socket or a pipe delivers it, in reads of at most
	// 70001 bytes
	big := false
	for _, r := range recs {
		big = big || r.Obj >= len(objs)
	}
	if big {
		objs = append(objs, String(c12Pattern(3<<19)), List{[]byte("a"), c12Pattern(1200000), []byte("z")})
	}
	keys := [][]byte{[]byte("k"), []byte("12"), c12Pattern(70)}
	c := map[string]interface{}{"sub": "file", "recs": recs}
	var buf bytes.Buffer
	enc := NewEncoder(&buf)
	if err := enc.EncodeHeader(); err != nil {
		ev.Violate("C12|file-encode", err.Error(), c)
		return
	}
	for _, r := range recs {
		if err := enc.EncodeObject(r.DB, keys[r.Key], r.Expire, objs[r.Obj]); err != nil {
			ev.Violate("C12|file-encode", err.Error(), c)
			return
		}
	}
	if err := enc.EncodeFooter(); err != nil {
		ev.Violate("C12|file-encode", err.Error(), c)
		return
	}
	var src io.Reader = bytes.NewReader(buf.Bytes())
	if big {
		src = &c01Pieces{r: src, max: 70001}
	}
	l := NewLoader(src)
	if err := l.Header(); err != nil {
		ev.Violate("C12|file-header", fmt.Sprintf("file written by the encoder is rejected: %v", err), c)
		return
	}
	for i, r := range recs {
		e, err := l.NextBinEntry()
		if err != nil || e == nil {
			ev.Violate("C12|file-entry", fmt.Sprintf("record %d of a file written by the encoder: %v", i, err), c)
			return
		}
		oe, err := e.ObjEntry()
		if err != nil {
			ev.Violate("C12|file-entry-decode", fmt.Sprintf("record %d: %v", i, err), c)
			return
		}
		if oe.DB != r.DB || !bytes.Equal(oe.Key, keys[r.Key]) || oe.ExpireAt != r.Expire || !c12Same(objs[r.Obj], oe.Value) {
			ev.Violate("C12|file-record", fmt.Sprintf("record %d written as (db %d, key %q, expire %d, %s) read back as (db %d, key %q, expire %d, %s)",
				i, r.DB, keys[r.Key], r.Expire, c12Cut(c12Show(objs[r.Obj])), oe.DB, oe.Key, oe.ExpireAt, c12Cut(c12Show(oe.Value))), c)
			return
		}
	}
	if e, err := l.NextBinEntry(); e != nil || err != nil {
		ev.Violate("C12|file-extra", fmt.Sprintf("extra record or error at the end: %v", err), c)
		return
	}
	if err := l.Footer(); err != nil {
		ev.Violate("C12|file-footer", fmt.Sprintf("footer of a file written by the encoder does not verify: %v", err), c)
	}
}

func TestVerif_C12(t *testing.T) {
	defer ev.Flush("C12")
	defer func() { c12CheckHeld(1 << 30) }()
	log.SetLevel(log.LEVEL_NONE)
	var vals []*rdbgen.Value
	for _, v := range rdbcat.Values(1) {
		if v.Type != rdbgen.TStream {
			vals = append(vals, v)
		}
	}
	// every (distance, copy length) relation of an LZF back-reference, as a string value, as a
	// hash field/value and as the compressed container of a ziplist
	for i, s := range rdbcat.LZFFamily() {
		v := rdbgen.StringVal(s)
		v.Name = "string/" + s.Form
		vals = append(vals, v)
		if i%3 == 0 {
			h := rdbgen.HashVal([]rdbgen.Str{s, s}, rdbgen.LCanon)
			h.Name = "hash/" + s.Form
			vals = append(vals, h)
		}
	}
	if ev.ReplayFile() != "" {
		var c c12Case
		if err := ev.LoadReplay(&c); err == nil && c.Sub != "" {
			if c.Sub == "compact" {
				c12Compact(c.Idx[0], vals)
			} else {
				c12RoundTrip(c)
			}
			return
		}
		var f struct {
			Recs []c12Rec `json:"recs"`
		}
		if err := ev.LoadReplay(&f); err != nil {
			t.Fatal(err)
		}
		c12File(f.Recs)
		return
	}
	var n int64
	var idx int64
	mine := func() bool { idx++; return ev.Mine(idx) }
	ns := len(c12Strings)
	// strings, and collections of size 0..3 over the string pool (size 3: thorough; quick uses
	// all pairs plus a diagonal of triples)
	for _, kind := range []string{"string", "list", "set", "hash", "zset"} {
		if kind != "string" && mine() {
			c12RoundTrip(c12Case{Sub: "roundtrip", Kind: kind, Idx: []int{}})
			n++
		}
		for a := 0; a < ns; a++ {
			if mine() {
				if kind == "hash" {
					c12RoundTrip(c12Case{Sub: "roundtrip", Kind: kind, Idx: []int{a, (a + 1) % ns}})
				} else {
					c12RoundTrip(c12Case{Sub: "roundtrip", Kind: kind, Idx: []int{a}})
				}
				n++
			}
			if kind == "string" {
				continue
			}
			for b := 0; b < ns; b++ {
				if mine() {
					if kind == "hash" {
						c12RoundTrip(c12Case{Sub: "roundtrip", Kind: kind, Idx: []int{a, b, b, a}})
					} else {
						c12RoundTrip(c12Case{Sub: "roundtrip", Kind: kind, Idx: []int{a, b}})
					}
					n++
				}
				if ev.Thorough() && a < 27 && b < 27 {
					for c := 0; c < 27; c++ {
						if mine() {
							c12RoundTrip(c12Case{Sub: "roundtrip", Kind: kind, Idx: []int{a, b, c}})
							n++
						}
					}
				} else if mine() {
					c12RoundTrip(c12Case{Sub: "roundtrip", Kind: kind, Idx: []int{a, b, (a + b) % ns}})
					n++
				}
			}
		}
	}
	// scores: every sign x exponent x mantissa pattern
	for sign := uint64(0); sign < 2; sign++ {
		for exp := uint64(0); exp < 2048; exp++ {
			for _, man := range []uint64{0, 1, 1 << 51, 1<<52 - 1, 0x5555555555555} {
				if mine() {
					c12RoundTrip(c12Case{Sub: "roundtrip", Kind: "score", Bits: sign<<63 | exp<<52 | man})
					n++
				}
			}
		}
	}
	ev.Sample("roundtrip", c12Case{Sub: "roundtrip", Kind: "hash", Idx: []int{2, 3, 3, 2}})
	// compact encodings
	for i := range vals {
		if mine() {
			c12Compact(i, vals)
			n++
			ev.Outcome("compact:" + strings.Split(vals[i].Name, "/")[0])
		}
	}
	ev.Sample("compact", map[string]string{"value": vals[4].Name})
	// files: all sequences of length <= 3 over (db, key, expiry, object)
	var alpha []c12Rec
	for _, db := range []uint32{0, 1, 300} {
		for k := 0; k < 3; k++ {
			for _, ex := range []uint64{0, 4102444800123} {
				for o := range c12FileObjs() {
					if (k == 2 || ex != 0) && o > 2 && db != 1 {
						continue // the long key and expiry are crossed with every object in db 1 only
					}
					alpha = append(alpha, c12Rec{db, k, ex, o})
				}
			}
		}
	}
	ev.Bound("file_alphabet", len(alpha))
	if mine() {
		c12File(nil)
		n++
	}
	for i := range alpha {
		if mine() {
			c12File([]c12Rec{alpha[i]})
			n++
		}
		for j := range alpha {
			if mine() {
				c12File([]c12Rec{alpha[i], alpha[j]})
				n++
			}
		}
	}
	// triples over a reduced alphabet (one record per db/key/expiry class with three objects)
	var red []c12Rec
	for i, a := range alpha {
		if a.Obj < 3 && (ev.Thorough() || i%2 == 0) {
			red = append(red, a)
		}
	}
	ev.Bound("file_triple_alphabet", len(red))
	for _, a := range red {
		for _, b := range red {
			for _, c := range red {
				if mine() {
					c12File([]c12Rec{a, b, c})
					n++
				}
			}
		}
	}
	// files with strings beyond 1 MiB, delivered in pieces
	for _, o := range []int{8, 9} {
		for _, ex := range []uint64{0, 4102444800123} {
			if mine() {
				c12File([]c12Rec{{0, 0, 0, 0}, {3, 1, ex, o}, {3, 2, 0, 2}})
				n++
			}
			if mine() {
				c12File([]c12Rec{{1, 2, ex, o}, {1, 0, 0, 17 - o}})
				n++
			}
		}
	}
	ev.Sample("file", []c12Rec{alpha[0], alpha[len(alpha)-1]})
	ev.Eval(n)
	ev.Trace(n)
	ev.Trans(n)
	ev.StatesAdd(n)
	ev.NontrivialAdd(n)
}

// TestVerif_C12Race: encoder and decoder are used by several workers at once (decode mode, the
// restore workers). Eight goroutines decode and re-encode their own payloads concurrently; each
// result must be the one obtained alone. A -race build of this test reports shared storage.
func TestVerif_C12Race(t *testing.T) {
	defer ev.Flush("C12")
	log.SetLevel(log.LEVEL_NONE)
	if ev.ReplayFile() != "" {
		return
	}
	si, _ := ev.ShardInfo()
	if si != 0 {
		return
	}
	type job struct {
		name    string
		payload []byte
		obj     interface{}
	}
	var jobs []job
	for _, v := range rdbcat.Values(1) {
		if v.Type == rdbgen.TStream || len(v.Raw) > 4096 {
			continue
		}
		p := rdbgen.Dump(v.Type, v.Raw, 6)
		o, err := DecodeDump(p)
		if err != nil {
			continue // values the object decoder does not know are C12's sequential business
		}
		jobs = append(jobs, job{v.Name, p, o})
	}
	const workers = 8
	var wg sync.WaitGroup
	var mu sync.Mutex
	bad := ""
	rounds := 40
	for w := 0; w < workers; w++ {
		wg.Add(1)
		go func(w int) {
			defer wg.Done()
			for r := 0; r < rounds; r++ {
				for i := w; i < len(jobs); i += workers {
					j := jobs[i]
					o, err := DecodeDump(j.payload)
					why := ""
					if err != nil {
						why = "DecodeDump fails: " + err.Error()
					} else if !c12Same(o, j.obj) {
						why = "DecodeDump returns " + c12Show(o) + ", alone it returns " + c12Show(j.obj)
					} else if p2, err := EncodeDump(o); err != nil {
						why = "EncodeDump fails: " + err.Error()
					} else if o2, err := DecodeDump(p2); err != nil || !c12Same(o2, j.obj) {
						why = fmt.Sprintf("the re-encoded payload decodes to something else (%v)", err)
					}
					if why != "" {
						mu.Lock()
						if bad == "" {
							bad = fmt.Sprintf("%s, decoded by worker %d of %d concurrent ones: %s", j.name, w, workers, why)
						}
						mu.Unlock()
						return
					}
				}
			}
		}(w)
	}
	wg.Wait()
	if bad != "" {
		ev.Violate("C12|concurrent-decodes", bad, c12Case{Sub: "race"})
	}
	n := int64(rounds * len(jobs))
	ev.Eval(n)
	ev.Trace(n)
	ev.Trans(n)
	ev.StatesAdd(n)
	ev.NontrivialAdd(n)
}
