// C11 (parts b, c): end-of-file checksum and DUMP payload verification under every
// single-byte substitution. Package rdb.
package rdb

import (
	"bufio"
	"bytes"
	"encoding/binary"
	"fmt"
	"io"
	"os"
	"runtime"
	"runtime/debug"
	"strings"
	"sync"
	"testing"
	"time"

	"github.com/alibaba/RedisShake/pkg/libs/log"
	"github.com/alibaba/RedisShake/verifrt/crcref"
	"github.com/alibaba/RedisShake/verifrt/ev"
	"github.com/alibaba/RedisShake/verifrt/rdbcat"
	"github.com/alibaba/RedisShake/verifrt/rdbgen"
)

type c11Case struct {
	Sub  string `json:"sub"`
	Item int    `json:"item"`
	Pos  int    `json:"pos"`
	Val  int    `json:"val"`
	Name string `json:"name"`
}

// c11Parse runs the whole file through the loader; returns "" when no step reports an error.
func c11Parse(file []byte) (errText string) { return c11ParseFrom(bytes.NewReader(file)) }

// c11Split delivers data with a short read at every position in cuts (ascending); step > 0
// additionally limits every read to step bytes.
type c11Split struct {
	data []byte
	pos  int
	cuts []int
	step int
	// eofWithLast: the last chunk is returned together with io.EOF (an io.Reader may do that)
	eofWithLast bool
}

func (r *c11Split) Read(p []byte) (int, error) {
	if r.pos >= len(r.data) {
		return 0, io.EOF
	}
	end := len(r.data)
	for _, c := range r.cuts {
		if c > r.pos && c < end {
			end = c
			break
		}
	}
	if r.step > 0 && r.pos+r.step < end {
		end = r.pos + r.step
	}
	n := copy(p, r.data[r.pos:end])
	r.pos += n
	if r.eofWithLast && r.pos >= len(r.data) {
		return n, io.EOF
	}
	return n, nil
}

func c11ParseFrom(src io.Reader) (errText string) {
	defer func() {
		if x := recover(); x != nil {
			errText = fmt.Sprintf("go panic: %v", x)
		}
	}()
	l := NewLoader(src)
	if err := l.Header(); err != nil {
		return "header: " + err.Error()
	}
	for i := 0; i < 1000; i++ {
		e, err := l.NextBinEntry()
		if err != nil {
			return "entry: " + err.Error()
		}
		if e == nil {
			break
		}
	}
	if err := l.Footer(); err != nil {
		return "footer: " + err.Error()
	}
	return ""
}

func c11Positions(n int) []int {
	var out []int
	for i := 0; i < n; i++ {
		if n > 700 && n <= 2100 && i >= 320 && i < n-320 {
			continue
		}
		if n > 2100 && i >= 48 && i < n-24 {
			continue
		}
		out = append(out, i)
	}
	return out
}

var c11FileCache = map[int][]byte{}
var c11DumpCache = map[int][]byte{}

func c11CachedFile(i int, items []rdbgen.Item) []byte {
	f, ok := c11FileCache[i]
	if !ok {
		f, _ = rdbgen.File(9, []rdbgen.Item{items[i]})
		c11FileCache = map[int][]byte{i: f}
	}
	return f
}

func c11CachedDump(i int, items []rdbgen.Item) []byte {
	f, ok := c11DumpCache[i]
	if !ok {
		f = rdbgen.Dump(items[i].Val.Type, items[i].Val.Raw, 6)
		c11DumpCache = map[int][]byte{i: f}
	}
	return f
}

func c11File(c c11Case, items []rdbgen.Item) {
	file := c11CachedFile(c.Item, items)
	var want []rdbgen.Record
	if c.Val < 0 {
		if e := c11Parse(file); e != "" {
			ev.Violate("C11|intact-rdb-rejected", fmt.Sprintf("intact RDB with one %s record is rejected: %s", c.Name, e), c)
			return
		}
		// independent of how the bytes are split: a short read at every position (directly and
		// below a 16-byte bufio.Reader, the production composition), and byte-by-byte delivery
		var splits int64
		for _, p := range c11Positions(len(file)) {
			if p == 0 {
				continue
			}
			for _, buffered := range []bool{false, true} {
				for _, eofLast := range []bool{false, true} {
					var src io.Reader = &c11Split{data: file, cuts: []int{p}, eofWithLast: eofLast}
					if buffered {
						src = bufio.NewReaderSize(src, 16)
					}
					splits++
					if e := c11ParseFrom(src); e != "" {
						ev.Violate("C11|intact-rdb-rejected|split", fmt.Sprintf("intact RDB with one %s record (%d bytes) is rejected when the source delivers it with a short read at byte %d (bufio=%v, last bytes together with io.EOF=%v): %s", c.Name, len(file), p, buffered, eofLast, e), c)
						return
					}
				}
			}
		}
		if len(file) <= 2100 {
			for _, step := range []int{1, 3, 7} {
				splits++
				if e := c11ParseFrom(&c11Split{data: file, step: step}); e != "" {
					ev.Violate("C11|intact-rdb-rejected|split", fmt.Sprintf("intact RDB with one %s record is rejected when delivered %d byte(s) at a time: %s", c.Name, step, e), c)
					return
				}
			}
		}
		ev.Count("intact_rdb_split_deliveries", splits)
		return
	}
	orig := file[c.Pos]
	file[c.Pos] = byte(c.Val)
	e := c11Parse(file)
	file[c.Pos] = orig
	if e == "" {
		region := "data"
		if c.Pos >= len(file)-8 {
			region = "checksum"
		} else if c.Pos < 9 {
			region = "header"
		}
		ev.Violate("C11|corrupt-rdb-accepted|"+region, fmt.Sprintf("RDB with one %s record (%d bytes): byte %d changed from %02x to %02x and header, all records and the end-of-file check pass", c.Name, len(file), c.Pos, orig, c.Val), c)
		ev.Outcome("rdb:accepted")
		return
	}
	if len(e) > 7 && e[:7] == "footer:" {
		ev.Outcome("rdb:detected-by-checksum")
	} else if len(e) > 8 && e[:8] == "go panic" {
		ev.Outcome("rdb:go-panic")
		ev.Violate("C11|corrupt-rdb-panic", fmt.Sprintf("RDB with one %s record: byte %d changed from %02x to %02x makes the parser panic: %s", c.Name, c.Pos, orig, c.Val, e), c)
	} else {
		ev.Outcome("rdb:detected-by-parser")
	}
	_ = want
}

func c11Dump(c c11Case, items []rdbgen.Item) {
	it := items[c.Item]
	p := c11CachedDump(c.Item, items)
	classic := it.Val.Type != rdbgen.TStream
	decode := func(b []byte) (err error) {
		defer func() {
			if x := recover(); x != nil {
				err = fmt.Errorf("go panic: %v", x)
			}
		}()
		_, err = DecodeDump(b)
		return err
	}
	switch c.Sub {
	case "dump-intact":
		if classic {
			// only the verification step is judged here (what the payload decodes to is C12's business)
			if err := decode(p); err != nil && (strings.Contains(err.Error(), "invalid dump length") || strings.Contains(err.Error(), "invalid version") || strings.Contains(err.Error(), "CRC")) {
				ev.Violate("C11|intact-dump-rejected|"+it.Val.Name, fmt.Sprintf("intact DUMP payload of %s rejected by DecodeDump: %v", it.Val.Name, err), c)
			}
		}
	case "dump-subst":
		orig := p[c.Pos]
		p[c.Pos] = byte(c.Val)
		err := decode(p)
		p[c.Pos] = orig
		if err == nil {
			ev.Violate("C11|corrupt-dump-accepted", fmt.Sprintf("DUMP payload of %s: byte %d changed from %02x to %02x is accepted by DecodeDump", it.Val.Name, c.Pos, orig, c.Val), c)
		}
	case "dump-version":
		q := rdbgen.Dump(it.Val.Type, it.Val.Raw, uint16(c.Val))
		err := decode(q)
		if c.Val > 6 && err == nil {
			ev.Violate("C11|dump-version-accepted", fmt.Sprintf("correctly sealed DUMP payload with version %d (supported: 6) is accepted by DecodeDump", c.Val), c)
		}
	case "dump-trunc":
		if err := decode(p[:c.Pos]); err == nil {
			ev.Violate("C11|truncated-dump-accepted", fmt.Sprintf("DUMP payload of %s truncated to %d bytes is accepted by DecodeDump", it.Val.Name, c.Pos), c)
		}
	}
}

func TestVerif_C11B(t *testing.T) {
	defer ev.Flush("C11")
	log.SetLevel(log.LEVEL_NONE)
	if !crcref.SelfCheck() {
		t.Fatal("reference CRC self check failed")
	}
	var items []rdbgen.Item
	for _, it := range rdbcat.Items(1) {
		if it.Kind == "key" {
			items = append(items, it)
		}
	}
	if ev.ReplayFile() != "" {
		var c c11Case
		if err := ev.LoadReplay(&c); err != nil {
			t.Fatal(err)
		}
		if c.Sub == "rdb" {
			c11File(c, items)
		} else {
			c11Dump(c, items)
		}
		return
	}
	// quick: records without prefix options (the first block of the catalogue) and every 7th of the rest
	var n int64
	var idx int64
	nvals := len(rdbcat.Values(1))
	// A substituted byte can turn into a 32-bit length and make the parser allocate gigabytes
	// before it notices the end of the input. With the collector running, freed address space
	// is reused and has to be zeroed (seconds per case); with the collector off every such
	// allocation is fresh, untouched address space (about a millisecond). So: small artefacts
	// first with the collector off, big ones (few, much garbage) afterwards with it on.
	// A substituted byte can turn into (part of) a 32-bit length and make the parser allocate
	// gigabytes before it notices the end of the input. With the collector running, freed
	// address space is reused, has to be zeroed (about a second per case) and becomes resident;
	// with the collector off every such allocation is fresh, untouched address space (a
	// millisecond). So the collector is off while substituting; shards are kept short-lived
	// (many shards) so that the never-collected garbage stays small. Artefacts below 2 KiB come
	// first; the few bigger ones (about 100 KB of garbage per case) are substituted in their
	// first 48 and last 24 bytes only.
	order := []int{}
	for i, it := range items {
		if len(it.Bytes) < 2048 {
			order = append(order, i)
		}
	}
	nsmall := len(order)
	for i, it := range items {
		if len(it.Bytes) >= 2048 {
			order = append(order, i)
		}
	}
	debug.SetGCPercent(-1)
	for oi, i := range order {
		it := items[i]
		big := oi >= nsmall
		if oi == nsmall {
			// big artefacts produce ~100 KB of garbage per case: collect once here, then keep the
			// collector off as well (reused address space would have to be zeroed and become resident)
			debug.SetGCPercent(100)
			runtime.GC()
			debug.FreeOSMemory()
			debug.SetGCPercent(-1)
		}
		len32at := -1
		if big && len(it.Val.Raw) > 0 && it.Val.Raw[0] == 0x80 {
			len32at = 9 + len(it.Bytes) - len(it.Val.Raw)
		}
		skipVal := func(pos, v int) bool { return false }
		_ = len32at
		if !ev.Thorough() && ((i >= nvals && i%7 != 0) || len(it.Bytes) > 400) {
			continue
		}
		idx++
		if !ev.Mine(idx) {
			continue
		}
		if ev.OverBudget() {
			ev.Cap("time budget")
			break
		}
		file, _ := rdbgen.File(9, []rdbgen.Item{it})
		if os.Getenv("VERIF_TRACE") != "" {
			fmt.Printf("TRACE item %d %s len=%d t=%v\n", i, it.Name, len(file), time.Now().Format("15:04:05.000"))
		}
		c11File(c11Case{"rdb", i, 0, -1, it.Name}, items)
		n++
		for _, pos := range c11Positions(len(file)) {
			if ev.OverBudget() {
				ev.Cap("time budget")
				break
			}
			for v := 0; v < 256; v++ {
				if byte(v) == file[pos] || skipVal(pos, v) {
					continue
				}
				c11File(c11Case{"rdb", i, pos, v, it.Name}, items)
				n++
			}
		}
		ev.Nontrivial(ev.HashS("rdb" + it.Name))
		// DUMP payloads: once per distinct value (records without options)
		if i < nvals {
			p := rdbgen.Dump(it.Val.Type, it.Val.Raw, 6)
			c11Dump(c11Case{"dump-intact", i, 0, 0, it.Name}, items)
			for _, pos := range c11Positions(len(p)) {
				if ev.OverBudget() {
					ev.Cap("time budget")
					break
				}
				for v := 0; v < 256; v++ {
					if byte(v) == p[pos] {
						continue
					}
					c11Dump(c11Case{"dump-subst", i, pos, v, it.Name}, items)
					n++
				}
			}
			for _, ver := range []int{1, 5, 7, 9, 10, 255, 256, 262, 65535} {
				c11Dump(c11Case{"dump-version", i, 0, ver, it.Name}, items)
				n++
			}
			for cut := 0; cut < 10 && cut < len(p); cut++ {
				c11Dump(c11Case{"dump-trunc", i, cut, 0, it.Name}, items)
				n++
			}
			// the payload the real loader emits is byte-identical to the reference wrapping
			file1, _ := rdbgen.File(9, []rdbgen.Item{it})
			l := NewLoader(bytes.NewReader(file1))
			l.Header()
			if e, err := l.NextBinEntry(); err != nil || e == nil || !bytes.Equal(e.Value, p) ||
				binary.LittleEndian.Uint64(e.Value[len(e.Value)-8:]) != crcref.CRC64(0, e.Value[:len(e.Value)-8]) {
				ev.Violate("C11|emitted-payload-trailer", fmt.Sprintf("payload emitted for %s does not carry version 6 and the CRC-64 of its bytes", it.Name), c11Case{"dump-intact", i, 0, 0, it.Name})
			}
			ev.Nontrivial(ev.HashS("dump" + it.Name))
		}
	}
	ev.Eval(n)
	ev.Trace(n)
	ev.Trans(n)
	ev.StatesAdd(n)
	ev.Bound("substitutions", "every position (first/last 320 bytes of artefacts longer than 700 bytes, first 48/last 24 of those longer than 2100) x all 255 other byte values; quick: artefacts up to 400 bytes")
	ev.Sample("rdb-substitution", map[string]interface{}{"record": items[0].Name, "position": 12, "new_value": 0xff})
}

// TestVerif_C11Race: several loaders (one per source shard in the tool) parse, re-encode and
// decode in one process at the same time. Every payload must be the one the same loader
// produces when it runs alone, and its trailer must be the CRC-64 of its own bytes; a -race
// build of this test reports storage shared between the loaders.
func TestVerif_C11Race(t *testing.T) { rdbConcurrentLoaders(t, "C11") }

// TestVerif_C01Race: the same body for C01 (every record delivered exactly, also when several
// loaders run in one process).
func TestVerif_C01Race(t *testing.T) { rdbConcurrentLoaders(t, "C01") }

func rdbConcurrentLoaders(t *testing.T, prop string) {
	defer ev.Flush(prop)
	log.SetLevel(log.LEVEL_NONE)
	if ev.ReplayFile() != "" {
		return
	}
	// every shard of this pass is a fresh process and runs the same body: what is initialised on
	// first use gets as many concurrent first uses as there are shards
	var keys []rdbgen.Item
	for _, it := range rdbcat.Items(1) {
		if it.Kind == "key" && len(it.Bytes) < 4096 {
			keys = append(keys, it)
		}
	}
	const loaders = 8
	files := make([][]byte, loaders)
	for g := 0; g < loaders; g++ {
		var items []rdbgen.Item
		items = append(items, rdbgen.SelectDB(uint32(g), rdbgen.LCanon))
		for i := g; i < len(keys) && len(items) < 60; i += loaders {
			items = append(items, keys[i])
		}
		files[g], _ = rdbgen.File(9, items)
	}
	parse := func(file []byte) ([][]byte, string) {
		var out [][]byte
		l := NewLoader(bytes.NewReader(file))
		if err := l.Header(); err != nil {
			return nil, err.Error()
		}
		for {
			e, err := l.NextBinEntry()
			if err != nil {
				return nil, err.Error()
			}
			if e == nil {
				break
			}
			p := e.Value
			if len(p) < 10 || crcref.CRC64(0, p[:len(p)-8]) != binary.LittleEndian.Uint64(p[len(p)-8:]) {
				return nil, fmt.Sprintf("payload of key %q does not carry the CRC-64 of its own bytes", e.Key)
			}
			out = append(out, append([]byte{}, p...))
			// the conversion helpers use encoder and decoder
			if oe, err := e.ObjEntry(); err == nil {
				if be, err := oe.BinEntry(); err == nil {
					if _, err := DecodeDump(be.Value); err != nil {
						return nil, fmt.Sprintf("re-encoded payload of key %q does not decode: %v", e.Key, err)
					}
				}
			}
		}
		if err := l.Footer(); err != nil {
			return nil, err.Error()
		}
		return out, ""
	}
	// the concurrent phase comes FIRST: the very first use of the loader, its digest and its decoder
	// in this process happens in several goroutines at once (lazily built tables, first-use
	// initialisation); the solo reference is produced afterwards
	var wg sync.WaitGroup
	var mu sync.Mutex
	bad := ""
	rounds := 30
	first := make([][][]byte, loaders)
	start := make(chan struct{})
	for g := 0; g < loaders; g++ {
		wg.Add(1)
		go func(g int) {
			defer wg.Done()
			<-start
			for r := 0; r < rounds; r++ {
				got, why := parse(files[g])
				if why == "" && r == 0 {
					first[g] = got
				}
				if why == "" {
					if len(got) != len(first[g]) {
						why = "a different number of records than in the loader's first round"
					}
					for i := 0; why == "" && i < len(got); i++ {
						if !bytes.Equal(got[i], first[g][i]) {
							why = fmt.Sprintf("record %d: payload differs from the one this loader produced in its first round", i)
						}
					}
				}
				if why != "" {
					mu.Lock()
					if bad == "" {
						bad = fmt.Sprintf("loader %d of %d concurrent loaders, round %d: %s", g, loaders, r, why)
					}
					mu.Unlock()
					return
				}
			}
		}(g)
	}
	close(start)
	wg.Wait()
	for g := range files {
		alone, why := parse(files[g])
		if why != "" {
			t.Fatalf("sequential parse of file %d fails: %s", g, why)
		}
		if bad == "" && first[g] != nil {
			if len(alone) != len(first[g]) {
				bad = fmt.Sprintf("loader %d of %d concurrent loaders delivered %d records, alone it delivers %d", g, loaders, len(first[g]), len(alone))
			}
			for i := 0; bad == "" && i < len(alone); i++ {
				if !bytes.Equal(alone[i], first[g][i]) {
					bad = fmt.Sprintf("loader %d of %d concurrent loaders, record %d: payload differs from the one produced when the loader runs alone", g, loaders, i)
				}
			}
		}
	}
	if bad != "" {
		ev.Violate(prop+"|concurrent-loaders", bad, c11Case{Sub: "race"})
	}
	ev.Eval(int64(loaders * rounds))
	ev.Trace(int64(loaders * rounds))
	ev.Trans(int64(loaders * rounds))
	ev.StatesAdd(int64(loaders * rounds))
	ev.NontrivialAdd(int64(loaders * rounds))
	ev.Count("concurrent_loader_runs", int64(loaders*rounds))
}
