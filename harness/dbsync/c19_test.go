// C19 (sync paths): configured passwords never appear in logs or status output.
// The whole DbSyncer.Sync() flow (topology discovery, checkpoint load, PSYNC, full sync,
// incremental sync, source reconnect, restart after a target error) runs inside a fake-clock
// bubble against model peers that REQUIRE the two sentinel passwords; everything the tool logs
// (at debug and at info level) and every status document is scanned for the sentinels.
package dbSync

import (
	"bytes"
	"encoding/base64"
	"encoding/hex"
	"encoding/json"
	"fmt"
	"net"
	"regexp"
	"sort"
	"strings"
	"sync"
	"testing"
	"testing/synctest"
	"time"

	"github.com/alibaba/RedisShake/pkg/libs/log"
	utils "github.com/alibaba/RedisShake/redis-shake/common"
	conf "github.com/alibaba/RedisShake/redis-shake/configure"
	"github.com/alibaba/RedisShake/redis-shake/dbSync/slot"
	"github.com/alibaba/RedisShake/redis-shake/metric"
	"github.com/alibaba/RedisShake/verifrt/ev"
	"github.com/alibaba/RedisShake/verifrt/hook"
	"github.com/alibaba/RedisShake/verifrt/memconn"
	"github.com/alibaba/RedisShake/verifrt/mredis"
	"github.com/alibaba/RedisShake/verifrt/msource"
	"github.com/alibaba/RedisShake/verifrt/rdbgen"
	"golang.org/x/sync/semaphore"
)

const (
	c19Src = "SrcPw-7f3a9c21-Sentinel"
	c19Tgt = "TgtPw-b64e0d55-Sentinel"
)

type c19Case struct {
	Level      string `json:"log_level"`
	SourceType string `json:"source_type"`
	Resume     bool   `json:"resume"`
	Fault      string `json:"fault"` // "", "source-cut", "target-error", "bad-source-password"
}

type c19Runner struct{ ds *DbSyncer }

func (r *c19Runner) Main() {}
func (r *c19Runner) GetDetailedInfo() interface{} {
	return []map[string]interface{}{r.ds.GetExtraInfo()}
}

type lockedBuf struct {
	mu sync.Mutex
	b  bytes.Buffer
}

func (l *lockedBuf) Write(p []byte) (int, error) {
	l.mu.Lock()
	defer l.mu.Unlock()
	return l.b.Write(p)
}
func (l *lockedBuf) String() string {
	l.mu.Lock()
	defer l.mu.Unlock()
	return l.b.String()
}

// c19Leaks returns the forms in which a sentinel occurs in text.
func c19Leaks(text string) []string {
	var out []string
	for name, pw := range map[string]string{"source": c19Src, "target": c19Tgt} {
		forms := map[string]string{
			"plain":  pw,
			"hex":    hex.EncodeToString([]byte(pw)),
			"HEX":    strings.ToUpper(hex.EncodeToString([]byte(pw))),
			"base64": base64.StdEncoding.EncodeToString([]byte(pw)),
			"bytes":  strings.Trim(fmt.Sprint([]byte(pw)), "[]"),
		}
		for f, s := range forms {
			if strings.Contains(text, s) {
				out = append(out, name+" password ("+f+")")
			}
		}
	}
	sort.Strings(out)
	return out
}

var c19SiteRe = regexp.MustCompile(`([a-zA-Z_0-9]+\.go:\d+): \[[A-Z]+\]`)

// c19Run executes one scenario; returns leak descriptions (with the offending line).
func c19Run(t *testing.T, c c19Case) (leaks []string, sites map[string]bool, abort bool) {
	sites = map[string]bool{}
	buf := &lockedBuf{}
	old := log.StdLog
	log.StdLog = log.New(buf, "")
	log.SetFlags(log.Lshortfile)
	defer func() { log.StdLog = old }()
	if c.Level == "debug" {
		log.SetLevel(log.LEVEL_DEBUG)
	} else {
		log.SetLevel(log.LEVEL_INFO)
	}
	syncConfig{TargetDB: -1, Resume: c.Resume, SenderCount: 4, SenderSize: 1 << 20}.apply()
	conf.Options.SourcePasswordRaw = c19Src
	conf.Options.TargetPasswordRaw = c19Tgt
	conf.Options.SourceAuthType, conf.Options.TargetAuthType = "auth", "auth"
	if c.Fault == "unknown-auth-type" {
		conf.Options.SourceAuthType, conf.Options.TargetAuthType = "adminauth", "adminauth"
	}
	conf.Options.SourceType = c.SourceType
	conf.Options.TargetType = "standalone"
	conf.Options.SourceAddress, conf.Options.TargetAddress = "src:6379", "tgt:6379"
	conf.Options.SourceAddressList, conf.Options.TargetAddressList = []string{"src:6379"}, []string{"tgt:6379"}
	conf.Options.Type = conf.TypeSync
	conf.Options.Parallel = 2
	conf.Options.Psync = true
	conf.Options.KeyExists = "rewrite"
	conf.Options.TargetReplace = true
	conf.Options.BigKeyThreshold = 1 << 30
	conf.Options.LogLevel = c.Level
	conf.Options.ExtraInfo = true
	if c.Level == "debug" {
		conf.Options.LogLevel = utils.LogLevelDebug
	}
	defer func() {
		conf.Options.SourcePasswordRaw, conf.Options.TargetPasswordRaw = "", ""
		conf.Options.SourceType = "standalone"
		conf.Options.LogLevel = "info"
	}()
	var mu sync.Mutex
	hook.SetExitHook(func(int) {
		mu.Lock()
		abort = true
		mu.Unlock()
	})
	defer hook.SetExitHook(nil)
	defer hook.SetDialHook(nil)
	reg := mredis.NewRegistry()
	v := rdbgen.StringVal(rdbgen.RawStr([]byte("v1"), rdbgen.LCanon))
	reg.Add(v.Type, v.Raw, v.Log)
	rdbFile, _ := rdbgen.File(9, []rdbgen.Item{rdbgen.SelectDB(1, rdbgen.LCanon), rdbgen.Key(rdbgen.RawStr([]byte("k1"), rdbgen.LCanon), v, rdbgen.KeyOpts{}),
		rdbgen.Key(rdbgen.RawStr([]byte("k2"), rdbgen.LCanon), v, rdbgen.KeyOpts{ExpKind: "ms", ExpAt: 4102444800000})})
	var extra []string
	func() {
		defer func() {
			if x := recover(); x != nil && !strings.Contains(fmt.Sprint(x), "blocked goroutines remain") {
				extra = append(extra, fmt.Sprint("bubble: ", x))
			}
		}()
		synctest.Test(t, func(t *testing.T) {
			m := msource.New()
			m.Password = c19Src
			if c.Fault == "unknown-auth-type" {
				// auth_type names a command the peers do not know: Redis >= 5 echoes the arguments in its error reply
				m.Unknown = map[string]bool{"adminauth": true}
			}
			if c.Fault == "bad-source-password" {
				m.Password = "something-else"
			}
			if c.Fault == "no-master" {
				// every node of the shard reports role:slave: discovery gives up after its retries
				m.Role = "slave"
			}
			psyncs := 0
			m.PsyncReply = func(p msource.Psync) string {
				psyncs++
				if c.Fault == "continue-source-cut" {
					return "+CONTINUE" // the target holds a checkpoint of this source: the first PSYNC already continues
				}
				if psyncs == 1 {
					return "+FULLRESYNC 0123456789abcdef0123456789abcdef01234567 100"
				}
				return "+CONTINUE"
			}
			restores := 0
			topt := mredis.Options{Registry: reg, Password: c19Tgt}
			if c.Fault == "unknown-auth-type" {
				topt.Unknown = map[string]bool{"adminauth": true}
			}
			topt.ReplyHook = func(cmd mredis.Cmd) []byte {
				if cmd.Name() == "restore" {
					restores++
					if c.Fault == "target-error" && restores == 1 {
						return []byte("-ERR injected failure with some text\r\n")
					}
				}
				return nil
			}
			tgt := mredis.New(topt)
			if c.Fault == "continue-source-cut" {
				ck := utils.CheckpointKey
				if c.SourceType == conf.RedisTypeCluster {
					ck = utils.ChoseSlotInRange(utils.CheckpointKey, 0, 5460)
				}
				tgt.Put(0, ck, &mredis.Entry{Kind: "hash", Hash: map[string][]byte{
					"src:6379-" + utils.CheckpointRunId:   []byte("0123456789abcdef0123456789abcdef01234567"),
					"src:6379-" + utils.CheckpointOffset:  []byte("100"),
					"src:6379-" + utils.CheckpointVersion: []byte("1"),
				}, HashOrd: []string{"src:6379-" + utils.CheckpointRunId, "src:6379-" + utils.CheckpointOffset, "src:6379-" + utils.CheckpointVersion}})
			}
			hook.SetDialHook(func(network, addr string) (net.Conn, error, bool) {
				if c.Fault == "source-unreachable" && strings.HasPrefix(addr, "src") {
					return nil, fmt.Errorf("dial tcp %s: connect: connection refused", addr), true
				}
				cc, sc := memconn.Pair(addr)
				if strings.HasPrefix(addr, "src") {
					go m.Serve(sc)
				} else {
					go tgt.Serve(sc)
				}
				return cc, nil, true
			})
			node := &slot.SyncNode{Id: 7, Source: "src:6379", SourcePassword: c19Src, Target: []string{"tgt:6379"}, TargetPassword: c19Tgt,
				Slaves: []string{"src2:6379"}, SlotLeftBoundary: -1, SlotRightBoundary: -1}
			if c.SourceType == conf.RedisTypeCluster {
				node.SlotLeftBoundary, node.SlotRightBoundary = 0, 5460
			}
			ds := NewDbSyncer(node, 9320, semaphore.NewWeighted(1))
			metric.CreateMetric(&c19Runner{ds})
			go ds.Sync()
			sentRDB := 0
			stream := append(append([]byte{}, srcSym{Argv: []string{"SELECT", "1"}}.bytes()...), srcSym{Argv: []string{"SET", "k3", "v"}}.bytes()...)
			nsteps := 14
			if c.Fault == "no-master" || c.Fault == "source-unreachable" {
				nsteps = 40 // discovery retries for 6+5+4+3+2+1 seconds
			}
			for step := 0; step < nsteps; step++ {
				synctest.Wait()
				// answer every new PSYNC with the RDB / nothing
				if n := len(m.Psyncs()); n > sentRDB {
					for sentRDB < n {
						sentRDB++
						if sentRDB == 1 || c.Fault == "target-error" && sentRDB == 2 && false {
							conn := m.Conn(m.Psyncs()[sentRDB-1].Conn)
							conn.Write([]byte(fmt.Sprintf("\n$%d\r\n", len(rdbFile))))
							conn.Write(rdbFile)
						}
					}
				}
				switch step {
				case 4:
					if c := m.Conn(-1); c != nil && len(m.Psyncs()) > 0 {
						m.Conn(m.Psyncs()[len(m.Psyncs())-1].Conn).Write(stream)
					}
				case 7:
					if (c.Fault == "source-cut" || c.Fault == "continue-source-cut") && len(m.Psyncs()) > 0 {
						m.Conn(m.Psyncs()[len(m.Psyncs())-1].Conn).(*memconn.Conn).Cut()
					}
				case 10:
					if len(m.Psyncs()) > 0 {
						m.Conn(m.Psyncs()[len(m.Psyncs())-1].Conn).Write(srcSym{Argv: []string{"INCR", "n"}}.bytes())
					}
				}
				time.Sleep(time.Second)
			}
			synctest.Wait()
			// status documents
			if b, err := json.Marshal(conf.GetSafeOptions()); err == nil {
				extra = append(extra, "startup configuration echo: "+string(b))
			}
			extra = append(extra, fmt.Sprintf("startup configuration echo (%%v): %v", conf.GetSafeOptions()))
			if b, err := json.Marshal(ds.GetExtraInfo()); err == nil {
				extra = append(extra, "per-syncer status: "+string(b))
			}
			if b, err := json.Marshal(metric.NewMetricRest()); err == nil {
				extra = append(extra, "REST metric document: "+string(b))
			}
		})
	}()
	text := buf.String()
	for _, mm := range c19SiteRe.FindAllStringSubmatch(text, -1) {
		sites[mm[1]] = true
	}
	for _, line := range append(strings.Split(text, "\n"), extra...) {
		if l := c19Leaks(line); len(l) > 0 {
			short := line
			if len(short) > 260 {
				short = short[:260] + "..."
			}
			leaks = append(leaks, strings.Join(l, ", ")+" in: "+short)
		}
	}
	return
}

func TestVerif_C19(t *testing.T) {
	defer ev.Flush("C19")
	if ev.ReplayFile() != "" {
		var c c19Case
		if err := ev.LoadReplay(&c); err != nil {
			t.Fatal(err)
		}
		if c.Level == "" {
			return
		}
		leaks, sites, ab := c19Run(t, c)
		t.Logf("replay %+v: %d log call sites, abort=%v, leaks: %v", c, len(sites), ab, leaks)
		for _, l := range leaks {
			ev.Violate("C19|sync|"+c19Class(l), l, c)
		}
		return
	}
	var n, idx int64
	all := map[string]bool{}
	for _, level := range []string{"debug", "info"} {
		for _, st := range []string{"standalone", conf.RedisTypeCluster} {
			for _, resume := range []bool{false, true} {
				for _, fault := range []string{"", "source-cut", "target-error", "bad-source-password", "unknown-auth-type", "no-master", "source-unreachable", "continue-source-cut"} {
					if fault == "continue-source-cut" && !resume {
						continue
					}
					idx++
					if !ev.Mine(idx) {
						continue
					}
					c := c19Case{level, st, resume, fault}
					leaks, sites, _ := c19Run(t, c)
					n++
					for s := range sites {
						all[s] = true
						ev.State(ev.HashS(s))
					}
					for _, l := range leaks {
						ev.Violate("C19|sync|"+c19Class(l), fmt.Sprintf("%s (scenario %+v)", l, c), c)
					}
					ev.Nontrivial(ev.HashS(fmt.Sprint(c)))
					ev.Outcome(fmt.Sprintf("leaks=%d", len(leaks)))
				}
			}
		}
	}
	var sl []string
	for s := range all {
		sl = append(sl, s)
	}
	sort.Strings(sl)
	ev.Sample("log-call-sites-fired", sl)
	ev.Count("distinct_log_call_sites_fired_sum_over_shards", int64(len(sl)))
	ev.Eval(n)
	ev.Trace(n)
	ev.Trans(n * 14)
}

// c19Class: the log call site (file:line) or document a leak sits in.
func c19Class(l string) string {
	if m := c19SiteRe.FindStringSubmatch(l); m != nil {
		return m[1][:strings.Index(m[1], ":")]
	}
	for _, d := range []string{"startup configuration echo", "per-syncer status", "REST metric document"} {
		if strings.Contains(l, d) {
			return d
		}
	}
	return "other"
}
