// C14 (sender states): "whatever the incremental sender stores is read back unchanged by the
// loader". Every target state the real sender produces (every prefix of what the target
// received, for multi-database streams and all batchings) is read back with the real
// LoadCheckpoint: run id, offset and database must be those of the last committed batch.
package dbSync

import (
	"fmt"
	"strconv"
	"testing"

	"github.com/alibaba/RedisShake/pkg/libs/log"
	"github.com/alibaba/RedisShake/verifrt/ev"
	"github.com/alibaba/RedisShake/verifrt/mredis"
	"github.com/alibaba/RedisShake/verifrt/seqx"
)

// c14sLast: offset and database of the last batch committed within recv.
func c14sLast(recv []mredis.Cmd) (int64, int) {
	off, db := int64(-1), -1
	var pendOff int64 = -1
	pendDB := -1
	in := false
	cur := 0
	for _, r := range recv {
		switch n := r.Name(); {
		case n == "multi":
			in, pendOff = true, -1
		case n == "select" && len(r.Argv) == 2:
			cur, _ = strconv.Atoi(string(r.Argv[1]))
		case n == "hset" && len(r.Argv) == 4 && string(r.Argv[2]) == syncSource+"-offset":
			pendOff, _ = strconv.ParseInt(string(r.Argv[3]), 10, 64)
			pendDB = cur
		case n == "exec":
			if in && pendOff >= 0 {
				off, db = pendOff, pendDB
			}
			in = false
		}
	}
	return off, db
}

func TestVerif_C14S(t *testing.T) {
	defer ev.Flush("C14")
	log.SetLevel(log.LEVEL_NONE)
	if ev.ReplayFile() != "" {
		var c c04Case
		if err := ev.LoadReplay(&c); err != nil || len(c.Word) == 0 {
			return
		}
		k, w := c14sOne(t, c)
		t.Logf("replay %v -> %s %s", syncNames(c.Word), k, w)
		if k != "" {
			ev.Violate("C14|sender-state|"+k, w, c)
		}
		return
	}
	var symIdx []int
	for _, name := range c04Sigma {
		for i, s := range syncSigma {
			if s.Name == name {
				symIdx = append(symIdx, i)
			}
		}
	}
	var cfgs []syncConfig
	for _, sc := range []uint{1, 2, 1024} {
		for _, sdb := range []int{0, 1} {
			cfgs = append(cfgs, syncConfig{TargetDB: -1, Resume: true, SenderCount: sc, SenderSize: 64 * 1024, StartDb: sdb, StartOffset: 1000})
			// the same on a connection that keeps Send arguments until Flush (cluster target)
			cfgs = append(cfgs, syncConfig{TargetDB: -1, Resume: true, SenderCount: sc, SenderSize: 64 * 1024, StartDb: sdb, StartOffset: 1000, Batched: true, Debug: sc == 2})
		}
	}
	maxLen := 3
	if ev.Thorough() {
		maxLen = 4
	}
	ev.Bound("sender_stream_len", maxLen)
	var n, idx int64
	var word []int
	var rec func(cfg syncConfig)
	rec = func(cfg syncConfig) {
		if len(word) > 0 && syncWellFormed(word) {
			idx++
			if ev.Mine(idx) && !ev.OverBudget() {
				c := c04Case{Cfg: cfg, Word: append([]int{}, word...), Cut: -1, Names: syncNames(word)}
				k, w := c14sOne(t, c)
				n++
				if k != "" {
					ev.Violate("C14|sender-state|"+k, fmt.Sprintf("%s (stream %v, config %+v)", w, c.Names, cfg), c)
				}
				ev.Outcome("sender:" + k)
				h := ev.HashS(fmt.Sprint(cfg, word))
				ev.State(h)
				ev.Nontrivial(h)
			}
		}
		if len(word) == maxLen {
			return
		}
		for _, s := range symIdx {
			word = append(word, s)
			rec(cfg)
			word = word[:len(word)-1]
		}
	}
	for _, cfg := range cfgs {
		rec(cfg)
	}
	ev.Eval(n)
	ev.Trace(n)
	ev.Trans(n * 4)
}

func c14sOne(t *testing.T, c c04Case) (string, string) {
	srv := mredis.New(mredis.Options{})
	res := syncExecute(t, c.Cfg, syncSegs(c.Word), srv, seqx.NewReplay(nil))
	if res.Abort != "" {
		return "", "" // C03/C04's business
	}
	for cut := 0; cut <= len(res.Received); cut++ {
		m := mredis.New(mredis.Options{})
		m.ReplayCommands(res.Received[:cut])
		wantOff, wantDB := c14sLast(res.Received[:cut])
		runid, off, db, err, aborted := c04Load(m)
		switch {
		case aborted || err != nil:
			return "load-error", fmt.Sprintf("LoadCheckpoint fails on the state after %d of the sender's commands: %v (target received [%s])", cut, err, syncShowCmds(res.Received[:cut]))
		case off != wantOff:
			return "offset", fmt.Sprintf("after %d of the sender's commands the last committed batch stored offset %d, the loader returns %d", cut, wantOff, off)
		case wantOff >= 0 && (runid != "run-1" || db != wantDB):
			return "runid-db", fmt.Sprintf("after %d of the sender's commands: stored run id run-1 in db %d, the loader returns run id %q db %d", cut, wantDB, runid, db)
		}
	}
	return "", ""
}
