// C03: incremental sync forwards the filtered command stream in order, exactly once.
package dbSync

import (
	"fmt"
	"strings"
	"testing"
	"time"

	"github.com/alibaba/RedisShake/pkg/libs/log"
	"github.com/alibaba/RedisShake/verifrt/ev"
	"github.com/alibaba/RedisShake/verifrt/mredis"
	"github.com/alibaba/RedisShake/verifrt/seqx"
)

type c03Case struct {
	Cfg   syncConfig `json:"config"`
	Word  []int      `json:"word"`
	Names []string   `json:"names"`
	Trail []int      `json:"trail"`
}

// c03Judge compares what the target applied with the reference fold.
func c03Judge(c c03Case, res *syncResult) (string, string) {
	if res.Abort != "" {
		return "abort", "the tool aborts on a well-formed stream: " + res.Abort
	}
	want := syncFold(c.Cfg, c.Word)
	var got []mredis.Cmd
	for _, a := range res.Applied {
		if !syncIsOwn(a) {
			got = append(got, a)
		}
	}
	if !c.Cfg.Resume {
		for _, r := range res.Received {
			if n := r.Name(); n == "multi" || n == "exec" {
				return "marker-forwarded", "a " + strings.ToUpper(n) + " reached the target although resume is off"
			}
		}
	}
	show := func() string {
		var w []string
		for _, e := range want {
			w = append(w, e.String())
		}
		return fmt.Sprintf("expected [%s], target applied [%s], target received [%s]", strings.Join(w, " | "), syncShowCmds(got), syncShowCmds(res.Received))
	}
	for i := 0; i < len(want) || i < len(got); i++ {
		if i >= len(got) {
			return "missing", fmt.Sprintf("command %q was never applied (even after the stream was idle for 1.1 s); %s", want[i].String(), show())
		}
		if i >= len(want) {
			return "extra", fmt.Sprintf("command %s was applied but should not have been (or was applied twice); %s", syncShowCmds(got[i:i+1]), show())
		}
		w, g := want[i], got[i]
		same := len(w.Argv) == len(g.Argv) && strings.EqualFold(w.Argv[0], string(g.Argv[0]))
		if same {
			for j := 1; j < len(w.Argv); j++ {
				if w.Argv[j] != string(g.Argv[j]) {
					same = false
				}
			}
		}
		if !same {
			return "different", fmt.Sprintf("position %d: applied %s, expected %q; %s", i, syncShowCmds(got[i:i+1]), w.String(), show())
		}
		if w.DB != g.DB {
			return "wrong-db", fmt.Sprintf("command %q ran in db %d; %s", w.String(), g.DB, show())
		}
	}
	// bounded time: the sender flushes at least every 500 ms, so at every quiescent point the
	// target must have applied every forwarded command whose source bytes were completely
	// delivered 500 ms (of the bubble's clock) or more before
	for j, w := range want {
		if c.Cfg.AtTick {
			// a command arriving in the timer case postpones the flush to a later tick (by design:
			// the sender only flushes on the timer when its queue is empty); only the idle-stream
			// bound above ("never applied after 1.1 s of silence") is judged
			break
		}
		if w.Idx >= len(res.DeliveredAt) {
			continue
		}
		d := res.DeliveredAt[w.Idx]
		for _, p := range res.Timeline {
			if p.At >= d+c03FlushBound && p.Applied <= j {
				return "late", fmt.Sprintf("command %q was delivered by the source at %v but at %v the target had applied only %d forwarded commands; %s", w.String(), d, p.At, p.Applied, show())
			}
		}
	}
	return "", ""
}

// the sender's flush period (500 ms) plus nothing: inside the bubble processing takes no time
const c03FlushBound = 500 * time.Millisecond

func c03Configs(level int) []syncConfig {
	var out []syncConfig
	for _, dbf := range []int{0, 1, 2} {
		for _, kf := range []int{0, 1, 2} {
			for _, lua := range []bool{false, true} {
				for _, tdb := range []int{-1, 0, 2} {
					for _, resume := range []bool{false, true} {
						if resume && tdb != -1 {
							continue // main/sanitize.go refuses this combination
						}
						for _, sc := range []uint{1, 2, 1024} {
							for _, ss := range []uint64{1, 64 * 1024} {
								for _, sdb := range []int{0, 1} {
									if sdb != 0 && !resume {
										continue // a start database only exists when resuming
									}
									if level == 0 && !(lua == (kf == 1) && (ss == 1) == (sc == 2)) {
										continue
									}
									out = append(out, syncConfig{DBFilter: dbf, KeyFilter: kf, Lua: lua, TargetDB: tdb, Resume: resume, SenderCount: sc, SenderSize: ss, StartDb: sdb, StartOffset: 1000, Pauses: true})
								}
							}
						}
					}
				}
			}
		}
	}
	return out
}

func c03Run(t *testing.T, c c03Case, ch *seqx.Chooser) (string, string, *syncResult) {
	srv := mredis.New(mredis.Options{})
	res := syncExecute(t, c.Cfg, syncSegs(c.Word), srv, ch)
	k, w := c03Judge(c, res)
	return k, w, res
}

// words enumerates all well-formed streams up to maxLen; with a fixed target database the
// stream starts with a SELECT (a master always announces the database after a full sync).
func c03Words(maxLen int, needSelect bool, visit func(word []int)) {
	var word []int
	var rec func()
	rec = func() {
		if syncWellFormed(word) && (!needSelect || len(word) == 0 || strings.HasPrefix(strings.ToUpper(syncSigma[word[0]].Name), "SELECT")) {
			visit(append([]int{}, word...))
		}
		if len(word) == maxLen {
			return
		}
		for i := 0; i < syncEnumerated(); i++ {
			word = append(word, i)
			rec()
			word = word[:len(word)-1]
		}
	}
	rec()
}

func TestVerif_C03(t *testing.T) {
	defer ev.Flush("C03")
	log.SetLevel(log.LEVEL_NONE)
	if ev.ReplayFile() != "" {
		var c c03Case
		if err := ev.LoadReplay(&c); err != nil {
			t.Fatal(err)
		}
		for i := 0; i < 2; i++ {
			k, w, res := c03Run(t, c, seqx.NewReplay(c.Trail))
			t.Logf("replay %v cfg %+v steps %v -> %s %s", syncNames(c.Word), c.Cfg, res.Steps, k, w)
			if k != "" {
				ev.Violate("C03|"+k, w, c)
			}
		}
		return
	}
	var n, trans, idx int64
	full := c03Configs(1)
	reduced := c03Configs(0)
	ev.Bound("configs_full", len(full))
	ev.Bound("configs_reduced", len(reduced))
	ev.Bound("alphabet", syncEnumerated())
	lenDefault, lenSched, dev := 3, 2, 2
	if ev.Thorough() {
		lenDefault, lenSched, dev = 4, 3, 3
	}
	ev.Bound("stream_len_default_schedule", lenDefault)
	ev.Bound("stream_len_all_schedules", lenSched)
	ev.Bound("deviations", dev)
	capped := false
	rechecked := 0
	one := func(c c03Case, maxDev int) {
		if capped {
			return
		}
		idx++
		if !ev.Mine(idx) {
			return
		}
		if idx%64 == 0 && ev.OverBudget() {
			capped = true
			ev.Cap("time budget")
			return
		}
		_, complete := seqx.Explore(seqx.Options{MaxDev: maxDev, Stop: ev.OverBudget}, func(ch *seqx.Chooser) {
			k, w, res := c03Run(t, c, ch)
			if rechecked < 48 {
				// determinism: the same schedule must produce the same observation trace
				rechecked++
				_, _, res2 := c03Run(t, c, seqx.NewReplay(append([]int{}, ch.Trail...)))
				if syncShowCmds(res.Received) != syncShowCmds(res2.Received) || fmt.Sprint(res.Steps) != fmt.Sprint(res2.Steps) {
					t.Fatalf("nondeterminism: stream %v config %+v schedule %v gave two different traces:\n%s\n%s", syncNames(c.Word), c.Cfg, res.Steps, syncShowCmds(res.Received), syncShowCmds(res2.Received))
				}
			}
			n++
			trans += int64(len(res.Steps))
			cc := c
			cc.Trail = append([]int{}, ch.Trail...)
			cc.Names = syncNames(c.Word)
			if k != "" {
				tdb := "target.db=-1"
				if c.Cfg.TargetDB != -1 {
					tdb = "target.db=fixed"
				}
				ev.Violate("C03|"+k+"|"+tdb, fmt.Sprintf("%s (stream %v, config %+v, schedule %v)", w, cc.Names, c.Cfg, res.Steps), cc)
				ev.Outcome(k)
			} else {
				ev.Outcome(fmt.Sprintf("ok-%d-forwarded", len(syncFold(c.Cfg, c.Word))))
			}
			h := ev.HashS(fmt.Sprint(c.Cfg, c.Word, ch.Trail))
			ev.State(h)
			if len(syncFold(c.Cfg, c.Word)) > 0 {
				ev.Nontrivial(h)
			}
			if n%20000 == 1 {
				ev.Sample("execution", map[string]interface{}{"stream": cc.Names, "config": c.Cfg, "schedule": res.Steps, "target_received": syncShowCmds(res.Received)})
			}
		})
		if !complete {
			capped = true
			ev.Cap("time budget")
		}
	}
	// every configuration x every stream up to lenSched-1.. under the default schedule
	for _, cfg := range full {
		c03Words(lenSched, cfg.TargetDB != -1, func(word []int) { one(c03Case{Cfg: cfg, Word: word}, 0) })
	}
	// reduced configurations x longer streams, default schedule
	for _, cfg := range reduced {
		c03Words(lenDefault, cfg.TargetDB != -1, func(word []int) {
			if len(word) > lenSched {
				one(c03Case{Cfg: cfg, Word: word}, 0)
			}
		})
	}
	// reduced configurations x streams up to lenSched under every schedule within the deviation bound
	for _, cfg := range reduced {
		c03Words(lenSched, cfg.TargetDB != -1, func(word []int) {
			if len(word) > 0 {
				one(c03Case{Cfg: cfg, Word: word}, dev)
			}
		})
	}
	// reduced configurations x streams up to lenSched with deliveries inside the sender's timer case
	for _, cfg := range reduced {
		if cfg.DBFilter != 0 && !ev.Thorough() {
			continue // the timer logic does not look at the database filter
		}
		cfg.Pauses, cfg.AtTick = false, true
		c03Words(lenSched, cfg.TargetDB != -1, func(word []int) {
			if len(word) > 0 {
				one(c03Case{Cfg: cfg, Word: word}, dev)
			}
		})
	}
	// directed longer streams: a transaction spanning ticks, bursts of twice the sender count
	sym := func(name string) int {
		for i, s := range syncSigma {
			if s.Name == name {
				return i
			}
		}
		panic(name)
	}
	directed := [][]string{
		{"SELECT1", "MULTI", "SET", "INCR", "RPUSH", "EXEC", "INCR", "SELECT0", "APPEND"},
		{"SELECT0", "INCR", "INCR", "INCR", "INCR", "INCR", "select2", "INCR"},
		{"SELECT1", "SET", "SELECT1", "SET", "SELECT0", "PING", "PING", "APPEND"},
		{"select2", "MULTI", "INCR", "EXEC", "MULTI", "APPEND", "EXEC", "NEWLINE", "DEL"},
	}
	// a connection that keeps Send arguments until Flush (cluster target) and log.level = debug:
	// directed streams with a long argument, and all streams up to the all-schedules length
	long := [][]string{
		{"SELECT0", "SETLONG", "INCR"},
		{"SELECT1", "MULTI", "SETLONG", "APPEND", "EXEC", "SETLONG"},
		{"select2", "SETLONG", "SETLONG", "DEL"},
	}
	for _, cfg := range reduced {
		if cfg.DBFilter != 0 && !ev.Thorough() {
			continue
		}
		for _, bd := range [][2]bool{{true, true}, {true, false}, {false, true}} {
			cfg.Batched, cfg.Debug = bd[0], bd[1]
			for _, d := range long {
				var word []int
				for _, s := range d {
					word = append(word, sym(s))
				}
				one(c03Case{Cfg: cfg, Word: word}, 1)
			}
			if bd[0] && bd[1] {
				c03Words(lenSched, cfg.TargetDB != -1, func(word []int) {
					if len(word) > 0 {
						one(c03Case{Cfg: cfg, Word: word}, 0)
					}
				})
			}
		}
	}
	for _, cfg := range reduced {
		for _, d := range directed {
			var word []int
			for _, s := range d {
				word = append(word, sym(s))
			}
			one(c03Case{Cfg: cfg, Word: word}, 1)
		}
	}
	ev.Eval(n)
	ev.Trace(n)
	ev.Trans(trans)
	ev.Count("schedules_replayed_twice_with_identical_trace", int64(rechecked))
}
