// C04: checkpoints are atomic with the data, so resume loses and repeats nothing.
// Layer 1: every complete resume-enabled execution of the sender is cut after every command
// the target received; the real LoadCheckpoint reads the state back; a restart must converge.
package dbSync

import (
	"fmt"
	"net"
	"strconv"
	"strings"
	"testing"

	"github.com/alibaba/RedisShake/pkg/libs/log"
	"github.com/alibaba/RedisShake/redis-shake/checkpoint"
	utils "github.com/alibaba/RedisShake/redis-shake/common"
	"github.com/alibaba/RedisShake/verifrt/ev"
	"github.com/alibaba/RedisShake/verifrt/hook"
	"github.com/alibaba/RedisShake/verifrt/memconn"
	"github.com/alibaba/RedisShake/verifrt/mredis"
	"github.com/alibaba/RedisShake/verifrt/seqx"
)

type c04Case struct {
	Cfg   syncConfig `json:"config"`
	Word  []int      `json:"word"`
	Names []string   `json:"names"`
	Trail []int      `json:"trail"`
	Cut   int        `json:"cut"` // -1: whole run
}

// fwdItem: one thing the sender forwards (in order), with the source offset right after it.
type fwdItem struct {
	Argv []string
	End  int64
	DB   int // database it runs in / selects
	InTx bool // inside a source transaction
}

// c04Forwarded is the reference list of forwarded items including SELECTs and PINGs.
func c04Forwarded(cfg syncConfig, word []int) []fwdItem {
	var out []fwdItem
	if cfg.StartDb != 0 {
		out = append(out, fwdItem{Argv: []string{"select", strconv.Itoa(cfg.StartDb)}, End: cfg.StartOffset, DB: cfg.StartDb})
	}
	exp := syncFold(cfg, word)
	byIdx := map[int]expCmd{}
	for _, e := range exp {
		byIdx[e.Idx] = e
	}
	db := cfg.StartDb
	bypass := false
	inTx := false
	off := cfg.StartOffset
	for i, w := range word {
		s := syncSigma[w]
		off += int64(len(s.bytes()))
		if s.Argv == nil {
			continue
		}
		name := strings.ToLower(s.Argv[0])
		switch name {
		case "multi":
			inTx = true
		case "exec":
			inTx = false
		case "select":
			n, _ := strconv.Atoi(s.Argv[1])
			db = n
			bypass = (cfg.DBFilter == 1 && n != 1) || (cfg.DBFilter == 2 && n == 1)
			if !bypass {
				out = append(out, fwdItem{Argv: []string{"select", s.Argv[1]}, End: off, DB: n, InTx: inTx})
			}
		case "ping":
			if !bypass {
				out = append(out, fwdItem{Argv: []string{"ping"}, End: off, DB: db})
			}
		default:
			if e, ok := byIdx[i]; ok {
				out = append(out, fwdItem{Argv: e.Argv, End: off, DB: e.DB})
			}
		}
	}
	return out
}

// c04Dataset is the reference dataset after the source history up to offset `upto`.
func c04Dataset(cfg syncConfig, word []int, upto int64) string {
	srv := mredis.New(mredis.Options{})
	var cmds []mredis.Cmd
	for _, e := range syncFold(cfg, word) {
		if e.End > upto {
			break
		}
		cmds = append(cmds, mredis.Cmd{Conn: 1, Argv: [][]byte{[]byte("select"), []byte(strconv.Itoa(e.DB))}})
		var a [][]byte
		for _, x := range e.Argv {
			a = append(a, []byte(x))
		}
		cmds = append(cmds, mredis.Cmd{Conn: 1, Argv: a})
	}
	srv.ReplayCommands(cmds)
	return srv.SnapshotExcept(c04IsCheckpointKey)
}

func c04IsCheckpointKey(k string) bool { return strings.HasPrefix(k, utils.CheckpointKey) }

// c04Load runs the real LoadCheckpoint against srv.
func c04Load(srv *mredis.Server) (runid string, offset int64, db int, err error, aborted bool) {
	// LoadCheckpoint never closes the connection it opens (once per start in production): the
	// harness cuts it afterwards so that the model server's goroutine ends
	var opened []*memconn.Conn
	hook.SetDialHook(func(network, addr string) (net.Conn, error, bool) {
		cc, sc := memconn.Pair("target-ckpt")
		opened = append(opened, sc)
		go srv.Serve(sc)
		return cc, nil, true
	})
	defer func() {
		hook.SetDialHook(nil)
		for _, sc := range opened {
			sc.Cut()
		}
	}()
	hook.SetExitHook(func(int) {})
	defer hook.SetExitHook(nil)
	aborted = true
	done := make(chan struct{})
	go func() {
		defer close(done)
		runid, offset, db, err = checkpoint.LoadCheckpoint(7, syncSource, []string{"target:6379"}, "auth", "", utils.CheckpointKey, false, false)
		aborted = false
	}()
	<-done
	return
}

// c04Batches checks the structure of what the target received.
func c04Batches(c c04Case, recv []mredis.Cmd) (string, string) {
	fwd := c04Forwarded(c.Cfg, c.Word)
	fi := 0
	inBatch := false
	var batchItems []fwdItem
	var hsetOffset int64 = -1
	hsetSeen := false
	for _, r := range recv {
		n := r.Name()
		switch {
		case n == "multi":
			if inBatch {
				return "nested-multi", "MULTI inside MULTI reached the target"
			}
			inBatch, batchItems, hsetSeen = true, nil, false
		case n == "exec":
			if !inBatch {
				return "stray-exec", "EXEC without MULTI reached the target"
			}
			if len(batchItems) == 0 {
				return "empty-batch", "a MULTI/EXEC block without commands"
			}
			if !hsetSeen {
				return "batch-without-checkpoint", "a MULTI/EXEC block without checkpoint offset"
			}
			last := batchItems[len(batchItems)-1]
			if hsetOffset != last.End {
				return "checkpoint-offset", fmt.Sprintf("batch ending with %q stores offset %d, the source offset after that command is %d", strings.Join(last.Argv, " "), hsetOffset, last.End)
			}
			for i, it := range batchItems {
				if it.Argv[0] == "select" && i != 0 && !it.InTx {
					// (a source transaction that changes the database is necessarily one batch)
					return "batch-spans-databases", "a SELECT in the middle of a batch: the checkpoint would be stored in only one of the databases"
				}
			}
			inBatch = false
		case n == "hset" && len(r.Argv) == 4 && c04IsCheckpointKey(string(r.Argv[1])):
			if !inBatch {
				return "checkpoint-outside-transaction", "checkpoint field written outside MULTI/EXEC"
			}
			if string(r.Argv[2]) == syncSource+"-offset" {
				hsetOffset, _ = strconv.ParseInt(string(r.Argv[3]), 10, 64)
				hsetSeen = true
			}
		default:
			if fi >= len(fwd) {
				return "extra", "the target received more commands than the stream forwards: " + syncShowCmds([]mredis.Cmd{r})
			}
			want := fwd[fi]
			same := len(want.Argv) == len(r.Argv) && strings.EqualFold(want.Argv[0], n)
			for j := 1; same && j < len(want.Argv); j++ {
				same = want.Argv[j] == string(r.Argv[j])
			}
			if !same {
				return "different", fmt.Sprintf("the target received %s where %q was expected", syncShowCmds([]mredis.Cmd{r}), strings.Join(want.Argv, " "))
			}
			fi++
			if hsetSeen && inBatch {
				return "command-after-checkpoint", "a command follows the checkpoint write inside the same batch"
			}
			if !inBatch && n != "ping" {
				return "unbatched", "command " + n + " sent outside a MULTI/EXEC batch although resume is enabled"
			}
			if inBatch {
				batchItems = append(batchItems, want)
			}
		}
	}
	if fi != len(fwd) {
		return "missing", fmt.Sprintf("only %d of %d forwarded items reached the target", fi, len(fwd))
	}
	return "", ""
}

// c04Cut checks the state after a cut behind the first `cut` received commands and restarts.
func c04Cut(t *testing.T, c c04Case, recv []mredis.Cmd, cut int, finalData string) (string, string) {
	srv := mredis.New(mredis.Options{})
	srv.ReplayCommands(recv[:cut])
	data := srv.SnapshotExcept(c04IsCheckpointKey)
	runid, stored, db, err, aborted := c04Load(srv)
	if aborted || err != nil {
		return "load-failed", fmt.Sprintf("LoadCheckpoint fails on a state the sender produced (cut after %d commands): err=%v aborted=%v", cut, err, aborted)
	}
	upto := stored
	if stored < 0 {
		upto = c.Cfg.StartOffset - 1 // nothing applied yet
	}
	if want := c04Dataset(c.Cfg, c.Word, upto); want != data {
		return "dataset-vs-offset", fmt.Sprintf("cut after %d received commands: stored offset %d but the dataset is {%s}, the source history up to that offset gives {%s}", cut, stored,
			strings.Replace(data, "\n", "; ", -1), strings.Replace(want, "\n", "; ", -1))
	}
	if stored < 0 {
		return "", "fullsync"
	}
	if runid == "?" {
		// batches are atomic and the first batch of a session in a database carries run id and
		// version: a stored offset without them means this restart cannot resume
		return "runid-missing", fmt.Sprintf("cut after %d commands: the newest checkpoint (offset %d) has no run id, the restart falls back to a full sync", cut, stored)
	}
	if runid != "run-1" {
		return "runid", fmt.Sprintf("cut after %d commands: run id read back as %q", cut, runid)
	}
	// restart: PSYNC runid stored+1 makes the source continue with the byte after `stored`
	var stream []byte
	for _, w := range c.Word {
		stream = append(stream, syncSigma[w].bytes()...)
	}
	skip := stored - c.Cfg.StartOffset
	if skip < 0 || skip > int64(len(stream)) {
		return "offset-range", fmt.Sprintf("stored offset %d is outside the stream [%d,%d]", stored, c.Cfg.StartOffset, c.Cfg.StartOffset+int64(len(stream)))
	}
	cfg2 := c.Cfg
	cfg2.StartOffset = stored
	cfg2.StartDb = db
	var segs [][]byte
	if rest := stream[skip:]; len(rest) > 0 {
		segs = [][]byte{rest}
	}
	res := syncExecute(t, cfg2, segs, srv, seqx.NewReplay(nil))
	if res.Abort != "" {
		return "restart-abort", fmt.Sprintf("restart from offset %d in db %d aborts", stored, db)
	}
	if got := srv.SnapshotExcept(c04IsCheckpointKey); got != finalData {
		return "restart-dataset", fmt.Sprintf("cut after %d received commands, restart from offset %d in db %d: final dataset {%s} differs from the uninterrupted run's {%s}", cut, stored, db,
			strings.Replace(got, "\n", "; ", -1), strings.Replace(finalData, "\n", "; ", -1))
	}
	return "", "restarted"
}

func c04One(t *testing.T, c c04Case, ch *seqx.Chooser) (kind, what string, cuts int, steps []string) {
	srv := mredis.New(mredis.Options{})
	res := syncExecute(t, c.Cfg, syncSegs(c.Word), srv, ch)
	steps = res.Steps
	if res.Abort != "" {
		return "abort", "the tool aborts on a well-formed stream", 0, steps
	}
	if k, w := c04Batches(c, res.Received); k != "" {
		return k, w + "; target received [" + syncShowCmds(res.Received) + "]", 0, steps
	}
	finalData := srv.SnapshotExcept(c04IsCheckpointKey)
	if want := c04Dataset(c.Cfg, c.Word, 1<<60); want != finalData {
		return "final-dataset", fmt.Sprintf("uninterrupted run ends with {%s}, the source history gives {%s}", strings.Replace(finalData, "\n", "; ", -1), strings.Replace(want, "\n", "; ", -1)), 0, steps
	}
	from, to := 0, len(res.Received)
	if c.Cut >= 0 {
		from, to = c.Cut, c.Cut
	}
	for cut := from; cut <= to; cut++ {
		k, w := c04Cut(t, c, res.Received, cut, finalData)
		cuts++
		if k != "" {
			return k, w + "; target received [" + syncShowCmds(res.Received) + "]", cuts, steps
		}
		ev.Outcome("cut:" + w)
	}
	return "", "", cuts, steps
}

var c04Sigma = []string{"SELECT0", "SELECT1", "SET", "SETf", "INCR", "RPUSH", "APPEND", "PING", "MULTI", "EXEC", "NEWLINE", "DEL"}

func TestVerif_C04(t *testing.T) {
	defer ev.Flush("C04")
	log.SetLevel(log.LEVEL_NONE)
	if ev.ReplayFile() != "" {
		var c c04Case
		if err := ev.LoadReplay(&c); err != nil {
			t.Fatal(err)
		}
		if c.Cfg.SenderCount == 0 {
			return // a replay file of the end-to-end part
		}
		for i := 0; i < 2; i++ {
			k, w, _, steps := c04One(t, c, seqx.NewReplay(c.Trail))
			t.Logf("replay %v cfg %+v steps %v -> %s %s", syncNames(c.Word), c.Cfg, steps, k, w)
			if k != "" {
				ev.Violate("C04|"+k, w, c)
			}
		}
		return
	}
	var symIdx []int
	for _, name := range c04Sigma {
		for i, s := range syncSigma {
			if s.Name == name {
				symIdx = append(symIdx, i)
			}
		}
	}
	var cfgs []syncConfig
	for _, dbf := range []int{0, 2} {
		for _, kf := range []int{0, 1} {
			for _, sc := range []uint{1, 2, 1024} {
				for _, sdb := range []int{0, 1} {
					cfgs = append(cfgs, syncConfig{DBFilter: dbf, KeyFilter: kf, TargetDB: -1, Resume: true, SenderCount: sc, SenderSize: 64 * 1024, StartDb: sdb, StartOffset: 1000})
				}
			}
		}
	}
	cfgs = append(cfgs, syncConfig{TargetDB: -1, Resume: true, SenderCount: 1024, SenderSize: 1, StartOffset: 1 << 40},
		syncConfig{TargetDB: -1, Resume: true, SenderCount: 3, SenderSize: 64 * 1024, StartOffset: 0})
	maxLen, dev := 3, 1
	if ev.Thorough() {
		maxLen, dev = 4, 2
	}
	ev.Bound("stream_len", maxLen)
	ev.Bound("deviations", dev)
	ev.Bound("configs", len(cfgs))
	ev.Bound("alphabet", len(symIdx))
	var n, trans, idx, ncuts int64
	capped := false
	var word []int
	selectInTx := false
	var rec func(cfg syncConfig)
	var recOne func(cfg syncConfig)
	rec = func(cfg syncConfig) {
		if capped {
			return
		}
		recOne(cfg)
		if len(word) == maxLen {
			return
		}
		for _, s := range symIdx {
			word = append(word, s)
			rec(cfg)
			word = word[:len(word)-1]
		}
	}
	recOne = func(cfg syncConfig) {
		if capped {
			return
		}
		if len(word) > 0 && syncWellFormedTx(word, selectInTx || ev.Thorough()) {
			idx++
			if ev.Mine(idx) {
				if idx%16 == 0 && ev.OverBudget() {
					capped = true
					ev.Cap("time budget")
					return
				}
				c := c04Case{Cfg: cfg, Word: append([]int{}, word...), Cut: -1}
				d := dev
				if len(word) == maxLen && !ev.Thorough() && !selectInTx {
					d = 0
				}
				_, complete := seqx.Explore(seqx.Options{MaxDev: d, Stop: ev.OverBudget}, func(ch *seqx.Chooser) {
					k, w, cuts, steps := c04One(t, c, ch)
					n++
					ncuts += int64(cuts)
					trans += int64(len(steps) + cuts)
					cc := c
					cc.Trail = append([]int{}, ch.Trail...)
					cc.Names = syncNames(c.Word)
					if k != "" {
						ev.Violate("C04|"+k, fmt.Sprintf("%s (stream %v, config %+v, schedule %v)", w, cc.Names, c.Cfg, steps), cc)
					}
					h := ev.HashS(fmt.Sprint(cfg, word, ch.Trail))
					ev.State(h)
					if cuts > 1 {
						ev.Nontrivial(h)
					}
					if n%5000 == 1 {
						ev.Sample("execution", map[string]interface{}{"stream": cc.Names, "config": c.Cfg, "schedule": steps, "cut_points": cuts})
					}
				})
				if !complete {
					capped = true
					ev.Cap("time budget")
				}
			}
		}
	}
	for _, cfg := range cfgs {
		rec(cfg)
	}
	// directed longer streams: transactions that change the database (generic enumeration: thorough only)
	if !capped {
		sym := func(name string) int {
			for i, s := range syncSigma {
				if s.Name == name {
					return i
				}
			}
			panic(name)
		}
		directed := [][]string{
			{"MULTI", "select2", "INCR", "EXEC"},
			{"MULTI", "SET", "select2", "INCR", "EXEC"},
			{"MULTI", "select2", "INCR", "EXEC", "INCR"},
			{"MULTI", "INCR", "select2", "RPUSH", "EXEC", "SELECT0", "INCR"},
			{"SELECT1", "MULTI", "INCR", "SELECT0", "RPUSH", "EXEC", "APPEND"},
			{"select2", "INCR", "MULTI", "SELECT0", "INCR", "select2", "EXEC", "INCR"},
			{"MULTI", "SELECT1", "INCR", "EXEC", "INCR", "SELECT0", "INCR"},
		}
		for _, cfg := range cfgs {
			for _, names := range directed {
				word = word[:0]
				for _, nm := range names {
					word = append(word, sym(nm))
				}
				saveMax := maxLen
				maxLen = len(word)
				selectInTx = true
				recOne(cfg)
				selectInTx = false
				maxLen = saveMax
			}
		}
		word = word[:0]
	}
	ev.Eval(n)
	ev.Trace(n)
	ev.Trans(trans)
	ev.Count("cut_points_checked", ncuts)
}
