// C13 (incremental path): what the target receives for a command stream under a key filter is,
// command by command, what filter.HandleFilterKeyWithCommand decides for that command ALONE:
// the decision for one command never depends on its neighbours in the stream, commands that are
// not key-addressed (FLUSHALL, the transaction markers) are never dropped by the key filter.
// Every well-formed stream over a small alphabet up to a length bound x key filter configurations.
package dbSync

import (
	"fmt"
	"strings"
	"testing"

	"github.com/alibaba/RedisShake/pkg/libs/log"
	"github.com/alibaba/RedisShake/redis-shake/filter"
	"github.com/alibaba/RedisShake/verifrt/ev"
	"github.com/alibaba/RedisShake/verifrt/mredis"
	"github.com/alibaba/RedisShake/verifrt/seqx"
)

var c13iSigma = []srcSym{
	{"SETp", []string{"SET", "pk", "1"}},
	{"SETf", []string{"set", "fk", "2"}},
	{"MSETpf", []string{"MSET", "pa", "1", "fb", "2"}},
	{"DELff", []string{"DEL", "fk", "fb"}},
	{"DELpf", []string{"del", "pk", "fk"}},
	{"RPUSHp", []string{"RPUSH", "pl", "x", "y"}},
	{"FLUSHALL", []string{"FLUSHALL"}},
	{"flushall", []string{"flushall"}},
	{"MULTI", []string{"MULTI"}},
	{"EXEC", []string{"exec"}},
	{"SELECT1", []string{"SELECT", "1"}},
	{"PING", []string{"PING"}},
}

type c13iCase struct {
	KeyFilter int      `json:"key_filter"`
	Word      []int    `json:"word"`
	Names     []string `json:"names,omitempty"`
}

func c13iWellFormed(word []int) bool {
	in := false
	for _, w := range word {
		switch c13iSigma[w].Name {
		case "MULTI":
			if in {
				return false
			}
			in = true
		case "EXEC":
			if !in {
				return false
			}
			in = false
		}
	}
	return !in
}

func c13iRun(t *testing.T, c c13iCase) (string, string) {
	cfg := syncConfig{KeyFilter: c.KeyFilter, TargetDB: -1, SenderCount: 64, SenderSize: 1 << 20, StartOffset: 1000}
	var segs [][]byte
	for _, w := range c.Word {
		segs = append(segs, c13iSigma[w].bytes())
	}
	srv := mredis.New(mredis.Options{})
	res := syncExecute(t, cfg, segs, srv, seqx.NewReplay(nil))
	if res.Abort != "" {
		return "abort", "incremental sync aborts: " + res.Abort
	}
	// the filter lists are still installed: the per-command reference is the rewrite function
	// applied to that command alone
	var want []string
	curDB := 0
	for _, w := range c.Word {
		s := c13iSigma[w]
		name := strings.ToLower(s.Argv[0])
		if name == "multi" || name == "exec" || name == "ping" {
			continue
		}
		if name == "select" {
			curDB = 1 // every later command belongs to database 1, whatever was filtered before the SELECT
			continue
		}
		var argv [][]byte
		for _, a := range s.Argv[1:] {
			argv = append(argv, []byte(a))
		}
		out, reject := filter.HandleFilterKeyWithCommand(name, argv)
		if reject {
			continue
		}
		l := fmt.Sprintf("db%d %s", curDB, name)
		for _, a := range out {
			l += " " + string(a)
		}
		want = append(want, l)
	}
	var got []string
	for _, a := range res.Applied {
		if syncIsOwn(a) {
			continue
		}
		l := fmt.Sprintf("db%d %s", a.DB, a.Name())
		for _, x := range a.Argv[1:] {
			l += " " + string(x)
		}
		got = append(got, l)
	}
	if strings.Join(got, " | ") != strings.Join(want, " | ") {
		return "stream-differs-from-per-command-decisions", fmt.Sprintf("the target applied [%s]; each command filtered on its own gives [%s]", strings.Join(got, " | "), strings.Join(want, " | "))
	}
	// the tool's own transaction markers must pair up: the source's EXEC released the barrier
	depth := 0
	for _, r := range res.Received {
		switch r.Name() {
		case "multi":
			depth++
		case "exec":
			depth--
		}
		if depth < 0 || depth > 1 {
			return "unbalanced-transaction", "the target received unbalanced MULTI/EXEC: " + syncShowCmds(res.Received)
		}
	}
	if depth != 0 {
		return "unbalanced-transaction", "the target connection is left inside an open MULTI: " + syncShowCmds(res.Received)
	}
	return "", ""
}

func TestVerif_C13I(t *testing.T) {
	defer ev.Flush("C13")
	log.SetLevel(log.LEVEL_NONE)
	if ev.ReplayFile() != "" {
		var c c13iCase
		if err := ev.LoadReplay(&c); err != nil {
			t.Fatal(err)
		}
		if c.Word == nil {
			return
		}
		k, w := c13iRun(t, c)
		t.Logf("replay %v key_filter=%d -> %s %s", c.Names, c.KeyFilter, k, w)
		if k != "" {
			ev.Violate("C13|incremental|"+k, w, c)
		}
		return
	}
	maxLen := 3
	if ev.Thorough() {
		maxLen = 4
	}
	ev.Bound("incremental_stream_len", maxLen)
	ev.Bound("incremental_alphabet", len(c13iSigma))
	var n, idx, forwarded int64
	capped := false
	var word []int
	var rec func()
	rec = func() {
		if capped {
			return
		}
		if len(word) > 0 && c13iWellFormed(word) {
			for kf := 0; kf <= 2; kf++ {
				idx++
				if !ev.Mine(idx) {
					continue
				}
				if idx%32 == 0 && ev.OverBudget() {
					capped = true
					ev.Cap("time budget")
					return
				}
				c := c13iCase{KeyFilter: kf, Word: append([]int{}, word...)}
				for _, w := range word {
					c.Names = append(c.Names, c13iSigma[w].Name)
				}
				k, w := c13iRun(t, c)
				n++
				if k != "" {
					ev.Violate("C13|incremental|"+k, fmt.Sprintf("%s (stream %v, key filter %d: 0 none, 1 whitelist [p], 2 blacklist [f])", w, c.Names, kf), c)
				}
				ev.Outcome("incr:" + k)
				h := ev.HashS(fmt.Sprint("incr", kf, word))
				ev.State(h)
				ev.Nontrivial(h)
				forwarded += int64(len(word))
				if n%500 == 1 {
					ev.Sample("incremental", map[string]interface{}{"stream": c.Names, "key_filter": kf})
				}
			}
		}
		if len(word) == maxLen {
			return
		}
		for i := range c13iSigma {
			word = append(word, i)
			rec()
			word = word[:len(word)-1]
		}
	}
	rec()
	ev.Eval(n)
	ev.Trace(n)
	ev.Trans(forwarded)
	ev.Count("incremental_streams", n)
}
