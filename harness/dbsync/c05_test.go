// C05: the RDB/command-stream hand-off loses and duplicates no byte (sync side).
// Real functions driven: utils.SendPSyncListeningPort, utils.SendPSyncContinue (+waitRdbDump),
// DbSyncer.runIncrementalSync (+Iocopy, pSyncPipeCopy), DbSyncer.sendPSyncCmd, the pipe.
package dbSync

import (
	"bufio"
	"bytes"
	"fmt"
	"net"
	"runtime"
	"strings"
	"sync"
	"testing"
	"testing/synctest"
	"time"

	"github.com/alibaba/RedisShake/pkg/libs/io/pipe"
	"github.com/alibaba/RedisShake/pkg/libs/log"
	utils "github.com/alibaba/RedisShake/redis-shake/common"
	"github.com/alibaba/RedisShake/verifrt/ev"
	"github.com/alibaba/RedisShake/verifrt/hook"
	"github.com/alibaba/RedisShake/verifrt/memconn"
	"github.com/alibaba/RedisShake/verifrt/msource"
)

type c05Case struct {
	NL1      int    `json:"newlines_before_status"`
	Status   string `json:"status"` // FULLRESYNC spelling, or CONTINUE spelling
	NL2      int    `json:"newlines_before_size"`
	N        int    `json:"rdb_size"`
	Tail     int    `json:"commands_after"`
	Bufio    int    `json:"bufio_size"` // 0: production path through sendPSyncCmd
	Consumer string `json:"consumer"`   // eager, byte, lazy
	Cuts     []int  `json:"cuts"`       // segment boundaries (stream positions)
}

func c05RDB(n int) []byte {
	const alphabet = "\n$*+-:\r0123456789abcdef\xff\x00"
	out := make([]byte, n)
	for i := range out {
		out[i] = alphabet[(i*7+i/13)%len(alphabet)]
	}
	return out
}

func c05Stream(c c05Case) (stream []byte, headerLen int, payload []byte, full bool) {
	var b bytes.Buffer
	b.WriteString(strings.Repeat("\n", c.NL1))
	full = strings.Contains(strings.ToLower(c.Status), "fullresync")
	if full {
		fmt.Fprintf(&b, "+%s 0123456789abcdef0123456789abcdef01234567 4711\r\n", c.Status)
		b.WriteString(strings.Repeat("\n", c.NL2))
		fmt.Fprintf(&b, "$%d\r\n", c.N)
	} else {
		fmt.Fprintf(&b, "+%s\r\n", c.Status)
	}
	headerLen = b.Len()
	if full {
		payload = append(payload, c05RDB(c.N)...)
	}
	for i := 0; i < c.Tail; i++ {
		payload = append(payload, []byte(fmt.Sprintf("*2\r\n$4\r\nINCR\r\n$2\r\nk%d\r\n", i%10))...)
	}
	b.Write(payload)
	return b.Bytes(), headerLen, payload, full
}

// c05Run executes the hand-off once and compares what comes out of the pipe.
func c05Run(t *testing.T, c c05Case) (kind, what string) {
	cfg := syncConfig{TargetDB: -1, SenderCount: 1024, SenderSize: 1 << 20, StartOffset: 99}
	cfg.apply()
	stream, _, payload, full := c05Stream(c)
	var mu sync.Mutex
	abort := ""
	hook.SetExitHook(func(int) {
		mu.Lock()
		abort = "log.Panic"
		mu.Unlock()
	})
	defer hook.SetExitHook(nil)
	defer hook.SetDialHook(nil)
	bad := func(k, w string) {
		if kind == "" {
			kind, what = k, w
		}
	}
	func() {
		defer func() {
			if x := recover(); x != nil {
				bad("harness-bubble", fmt.Sprint(x))
			}
		}()
		synctest.Test(t, func(t *testing.T) {
			m := msource.New()
			m.PsyncReply = func(p msource.Psync) string { return "" } // the harness writes the whole answer itself
			dialed := 0
			// the reconnect (which takes the tool's 32 MiB + 8 MiB buffers again) is judged for the
			// deliveries in at most two pieces; what it asks for does not depend on the fragmentation
			withReconnect := len(c.Cuts) <= 1
			hook.SetDialHook(func(network, addr string) (net.Conn, error, bool) {
				dialed++
				if dialed > 2 || (dialed > 1 && !withReconnect) {
					runtime.Goexit() // reconnect loop after the (second) tear-down cut
				}
				// dialed == 2: the reconnect after the tear-down cut; its PSYNC is recorded and judged
				cc, sc := memconn.Pair("source")
				go m.Serve(sc)
				return cc, nil, true
			})
			ds := syncNewDs(cfg)
			ds.WaitFull = make(chan struct{}) // full phase: acknowledgements are 'ACK 0'
			ds.sourceOffset = -1
			askRunid := "?"
			if !full {
				// a resume: PSYNC <runid> <offset+1> answered with +CONTINUE
				ds.sourceOffset = 500
				askRunid = "run-1"
			}
			var piper pipe.Reader
			var gotRunid string
			var gotNsize int64
			var gotFull bool
			var gotErr error
			ready := false
			go func() {
				if c.Bufio == 0 {
					var r pipe.Reader
					r, gotNsize, gotFull, gotRunid, gotErr = ds.sendPSyncCmd(syncSource, "auth", "", false, askRunid)
					mu.Lock()
					piper, ready = r, true
					mu.Unlock()
					return
				}
				// the same composition as sendPSyncCmd, with small buffers
				conn, err := utils.OpenNetConn(syncSource, "auth", "", false)
				if err != nil {
					gotErr = err
					return
				}
				utils.SendPSyncListeningPort(conn, 0)
				br := bufio.NewReaderSize(conn, c.Bufio)
				bw := bufio.NewWriterSize(conn, 4096)
				runid, offset, wait, err := utils.SendPSyncContinue(br, bw, askRunid, ds.sourceOffset)
				if err != nil {
					gotErr = err
					mu.Lock()
					ready = true
					mu.Unlock()
					return
				}
				ds.sourceOffset = offset
				r, w := pipe.NewSize(4096)
				var nsize int64
				if wait != nil {
					for nsize == 0 {
						select {
						case nsize = <-wait:
						case <-time.After(time.Second):
						}
					}
					gotFull = true
				}
				gotRunid, gotNsize = runid, nsize
				go ds.runIncrementalSync(conn, br, bw, int(nsize), runid, syncSource, "auth", "", false, w, true)
				mu.Lock()
				piper, ready = r, true
				mu.Unlock()
			}()
			synctest.Wait()
			if len(m.Psyncs()) != 1 {
				bad("no-psync", "the tool did not send PSYNC")
				return
			}
			var out []byte
			consumerDone := make(chan struct{})
			startConsumer := func() {
				go func() {
					defer close(consumerDone)
					sz := 4096
					if c.Consumer == "byte" {
						sz = 1
					}
					buf := make([]byte, sz)
					for {
						mu.Lock()
						r := piper
						mu.Unlock()
						n, err := r.Read(buf)
						mu.Lock()
						out = append(out, buf[:n]...)
						mu.Unlock()
						if err != nil {
							return
						}
					}
				}()
			}
			started := false
			maybeStart := func(final bool) {
				mu.Lock()
				ok := ready && piper != nil
				mu.Unlock()
				if ok && !started && (c.Consumer != "lazy" || final) {
					started = true
					startConsumer()
				}
			}
			pos := 0
			cuts := append(append([]int{}, c.Cuts...), len(stream))
			for _, cut := range cuts {
				if cut <= pos || cut > len(stream) {
					continue
				}
				m.Conn(-1).Write(stream[pos:cut])
				pos = cut
				synctest.Wait()
				maybeStart(false)
				synctest.Wait()
			}
			// let keep-alive timers and ack ticks run
			time.Sleep(1500 * time.Millisecond)
			synctest.Wait()
			maybeStart(true)
			time.Sleep(1500 * time.Millisecond)
			synctest.Wait()
			mu.Lock()
			got := append([]byte{}, out...)
			isReady := ready
			ab := abort
			mu.Unlock()
			// "+CONTINUE <new run id>" (a master that changed its replication id): the tool may refuse
			// the reply, but if it goes on it must go on with the announced id
			announced := ""
			if i := strings.Index(c.Status, " "); i > 0 && !full {
				announced = c.Status[i+1:]
			}
			refused := announced != "" && gotErr != nil && ab == ""
			switch {
			case refused:
				kind = "refused"
			case ab != "":
				bad("abort", "the tool aborts during the hand-off")
			case !isReady || gotErr != nil:
				bad("handshake", fmt.Sprintf("the PSYNC reply was not accepted (ready=%v err=%v)", isReady, gotErr))
			case gotFull != full:
				bad("mode", fmt.Sprintf("reply %q understood as full sync=%v", c.Status, gotFull))
			case full && (gotNsize != int64(c.N) || gotRunid != "0123456789abcdef0123456789abcdef01234567" || ds.sourceOffset != 4711):
				bad("announced", fmt.Sprintf("announced run id/offset/size = 0123..4567/4711/%d, used %s/%d/%d", c.N, gotRunid, ds.sourceOffset, gotNsize))
			case !full && announced != "" && gotRunid != announced:
				bad("announced-runid", fmt.Sprintf("the source answered +%s, the tool goes on with run id %q", c.Status, gotRunid))
			case !full && (ds.sourceOffset != 500 || m.Psyncs()[0].Offset != 501 || m.Psyncs()[0].RunID != "run-1"):
				bad("announced", fmt.Sprintf("resume at offset 500: PSYNC %s %d sent, offset afterwards %d", m.Psyncs()[0].RunID, m.Psyncs()[0].Offset, ds.sourceOffset))
			case !bytes.Equal(got, payload):
				i := 0
				for i < len(got) && i < len(payload) && got[i] == payload[i] {
					i++
				}
				bad("bytes", fmt.Sprintf("the consumer saw %d bytes, the source sent %d after the header; first difference at byte %d (RDB size %d)", len(got), len(payload), i, c.N))
			}
			for _, a := range m.Acks() {
				if a != 0 && !refused {
					bad("ack-during-full", fmt.Sprintf("REPLCONF ACK %d while the RDB phase is not finished", a))
				}
			}
			// the full phase ends: from now on the acknowledged offset is the announced offset plus
			// every byte that followed the RDB (a byte of the command stream that was copied as
			// part of the RDB would be missing here and re-sent after the next reconnect)
			if refused {
				kind = "" // a refusal is a legitimate answer: nothing more to judge
			} else if kind == "" {
				close(ds.WaitFull)
				time.Sleep(1100 * time.Millisecond)
				synctest.Wait()
				base := int64(500)
				after := int64(len(payload))
				if full {
					base, after = 4711, int64(len(payload)-c.N)
				}
				acks := m.Acks()
				if len(acks) == 0 || acks[len(acks)-1] != base+after {
					last := int64(-1)
					if len(acks) > 0 {
						last = acks[len(acks)-1]
					}
					bad("ack-after-handoff", fmt.Sprintf("announced offset %d and %d bytes of commands received, but the acknowledged offset is %d", base, after, last))
				}
			}
			// the source connection breaks: the tool reconnects and must ask for the continuation of
			// what the source announced (its run id) at announced offset + bytes received + 1
			judgeReconnect := kind == "" && !refused && withReconnect
			for i := 0; i < m.NumConns(); i++ {
				m.Conn(i).(*memconn.Conn).Cut()
			}
			time.Sleep(1100 * time.Millisecond)
			synctest.Wait()
			time.Sleep(1100 * time.Millisecond)
			synctest.Wait()
			if judgeReconnect {
				wantID := "run-1"
				base, after := int64(500), int64(len(payload))
				if full {
					wantID = "0123456789abcdef0123456789abcdef01234567"
					base, after = 4711, int64(len(payload)-c.N)
				} else if announced != "" {
					wantID = announced
				}
				ps := m.Psyncs()
				if len(ps) < 2 {
					bad("no-reconnect", "the source connection was cut after the hand-off and the tool did not send a new PSYNC within 2.2 s")
				} else if p := ps[1]; p.RunID != wantID || p.Offset != base+after+1 {
					bad("reconnect-psync", fmt.Sprintf("after the hand-off (announced run id %s, offset %d, then %d bytes of commands) the reconnect sends PSYNC %s %d, expected PSYNC %s %d", wantID, base, after, p.RunID, p.Offset, wantID, base+after+1))
				}
			}
			// tear down (a reconnect whose PSYNC fails waits 30 s before it dials again)
			for i := 0; i < m.NumConns(); i++ {
				m.Conn(i).(*memconn.Conn).Cut()
			}
			time.Sleep(1100 * time.Millisecond)
			synctest.Wait()
			if withReconnect {
				time.Sleep(31 * time.Second)
			} else {
				time.Sleep(1100 * time.Millisecond)
			}
			synctest.Wait()
			mu.Lock()
			r := piper
			mu.Unlock()
			if r != nil {
				r.Close()
			}
			if !started {
				close(consumerDone)
			}
			synctest.Wait()
		})
	}()
	return
}

func TestVerif_C05(t *testing.T) {
	defer ev.Flush("C05")
	log.SetLevel(log.LEVEL_NONE)
	if ev.ReplayFile() != "" {
		var c c05Case
		if err := ev.LoadReplay(&c); err != nil {
			t.Fatal(err)
		}
		for i := 0; i < 2; i++ {
			k, w := c05Run(t, c)
			t.Logf("replay %+v -> %s %s", c, k, w)
			if k != "" {
				ev.Violate("C05|"+k, w, c)
			}
		}
		return
	}
	var n, idx int64
	capped := false
	run := func(c c05Case) {
		idx++
		if capped || !ev.Mine(idx) {
			return
		}
		if idx%32 == 0 && ev.OverBudget() {
			capped = true
			ev.Cap("time budget")
			return
		}
		k, w := c05Run(t, c)
		n++
		if k != "" {
			ev.Violate("C05|"+k, fmt.Sprintf("%s (case %+v)", w, c), c)
			ev.Outcome(k)
		} else {
			ev.Outcome("ok")
		}
		h := ev.HashS(fmt.Sprint(c))
		ev.State(h)
		if len(c.Cuts) > 0 {
			ev.Nontrivial(h)
		}
		if n%4000 == 1 {
			ev.Sample("handoff", c)
		}
	}
	statuses := []string{"FULLRESYNC", "fullresync", "FullReSync"}
	// 1. short streams: every single and double cut position
	for _, nl1 := range []int{0, 1, 3} {
		for _, nl2 := range []int{0, 1, 3} {
			for si, st := range statuses {
				if !ev.Thorough() && si > 0 && (nl1 != 1 || nl2 != 1) {
					continue
				}
				for _, nn := range []int{1, 2, 17} {
					for _, tail := range []int{0, 2} {
						base := c05Case{NL1: nl1, Status: st, NL2: nl2, N: nn, Tail: tail, Bufio: 16, Consumer: "eager"}
						stream, _, _, _ := c05Stream(base)
						L := len(stream)
						run(base)
						for a := 1; a < L; a++ {
							c := base
							c.Cuts = []int{a}
							run(c)
							if (si == 0 && nn == 2) || ev.Thorough() {
								for b := a + 1; b < L; b++ {
									c2 := base
									c2.Cuts = []int{a, b}
									run(c2)
								}
							}
						}
					}
				}
			}
		}
	}
	// 2. +CONTINUE replies
	for _, st := range []string{"CONTINUE", "continue", "Continue", "CONTINUE bbbbbbbbbbbbbbbbbbbbbbbbbbbbbbbbbbbbbbbb", "continue bbbbbbbbbbbbbbbbbbbbbbbbbbbbbbbbbbbbbbbb"} {
		for _, nl1 := range []int{0, 2} {
			base := c05Case{NL1: nl1, Status: st, Tail: 3, Bufio: 16, Consumer: "eager"}
			stream, _, _, _ := c05Stream(base)
			run(base)
			for a := 1; a < len(stream); a++ {
				c := base
				c.Cuts = []int{a}
				run(c)
			}
		}
	}
	// 3. sizes around the buffer boundaries x cuts around header end and RDB end x consumers x bufio sizes
	for _, nn := range []int{15, 16, 17, 4095, 4096, 4097, 8191, 8192, 8193, 16385} {
		for _, bsz := range []int{16, 4096} {
			for _, cons := range []string{"eager", "byte", "lazy"} {
				if cons == "byte" && nn > 5000 && !ev.Thorough() {
					continue
				}
				for _, tail := range []int{3, 600} {
					if tail == 600 && cons == "byte" && !ev.Thorough() {
						continue
					}
					base := c05Case{NL1: 1, Status: "FULLRESYNC", NL2: 1, N: nn, Tail: tail, Bufio: bsz, Consumer: cons}
					stream, hl, _, _ := c05Stream(base)
					marks := map[int]bool{}
					for _, p := range []int{1, hl - 1, hl, hl + 1, hl + nn - 1, hl + nn, hl + nn + 1, hl + 8192 - 1, hl + 8192, hl + 8192 + 1, hl + 4096, hl + nn + 8191, hl + nn + 8192, hl + nn + 8193, len(stream) - 1} {
						if p > 0 && p < len(stream) {
							marks[p] = true
						}
					}
					var ms []int
					for p := 1; p < len(stream); p++ {
						if marks[p] {
							ms = append(ms, p)
						}
					}
					run(base)
					for i, a := range ms {
						c := base
						c.Cuts = []int{a}
						run(c)
						for _, b := range ms[i+1:] {
							c2 := base
							c2.Cuts = []int{a, b}
							run(c2)
						}
					}
				}
			}
		}
	}
	// 4. the production path (sendPSyncCmd: 32 MiB bufio and pipe)
	for _, nn := range []int{1, 4097, 16385} {
		for _, cons := range []string{"eager", "lazy"} {
			base := c05Case{NL1: 1, Status: "FULLRESYNC", NL2: 2, N: nn, Tail: 2, Bufio: 0, Consumer: cons}
			stream, hl, _, _ := c05Stream(base)
			run(base)
			for _, a := range []int{1, hl - 1, hl, hl + 1, hl + nn, len(stream) - 1} {
				c := base
				c.Cuts = []int{a}
				run(c)
			}
		}
	}
	ev.Eval(n)
	ev.Trace(n)
	ev.Trans(n * 3)
}
