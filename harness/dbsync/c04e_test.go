// C04 layer 2 / C08 end to end: the real DbSyncer.Sync() (checkpoint load, PSYNC, full sync,
// incremental sync with ACK ticks) runs against a model master and a model target; the target
// is then cut after EVERY command it received, and a second real Sync() is started on the cut
// state (checkpoint load -> PSYNC runid offset+1 -> +CONTINUE). The restarted run must end
// with the uninterrupted run's dataset, and every stored offset must be a true stream position.
package dbSync

import (
	"fmt"
	"net"
	"runtime"
	"strconv"
	"strings"
	"sync"
	"testing"
	"testing/synctest"
	"time"

	"github.com/alibaba/RedisShake/pkg/libs/log"
	conf "github.com/alibaba/RedisShake/redis-shake/configure"
	"github.com/alibaba/RedisShake/redis-shake/dbSync/slot"
	"github.com/alibaba/RedisShake/verifrt/ev"
	"github.com/alibaba/RedisShake/verifrt/hook"
	"github.com/alibaba/RedisShake/verifrt/memconn"
	"github.com/alibaba/RedisShake/verifrt/mredis"
	"github.com/alibaba/RedisShake/verifrt/msource"
	"github.com/alibaba/RedisShake/verifrt/rdbgen"
	"golang.org/x/sync/semaphore"
)

type c04eCase struct {
	Word   []int    `json:"word"`
	Names  []string `json:"names"`
	Cut    int      `json:"cut"` // -1: uninterrupted run only
	Sender uint     `json:"sender_count"`
	// Late: the last command of the history arrives 11 s after the others (the once-per-10-s poll
	// of the source's replica table has run in between)
	Late bool `json:"last_command_after_11s,omitempty"`
}

const c04eBase = 100 // offset announced with +FULLRESYNC

var c04eReg = mredis.NewRegistry()

func c04eRDB() []byte {
	v := rdbgen.StringVal(rdbgen.RawStr([]byte("from-rdb"), rdbgen.LCanon))
	c04eReg.Add(v.Type, v.Raw, v.Log)
	f, _ := rdbgen.File(9, []rdbgen.Item{rdbgen.SelectDB(1, rdbgen.LCanon), rdbgen.Key(rdbgen.RawStr([]byte("r"), rdbgen.LCanon), v, rdbgen.KeyOpts{})})
	return f
}

// c04eSync runs one real Sync() on `tgt` until the stream has been consumed and things are quiet.
func c04eSync(t *testing.T, c c04eCase, tgt *mredis.Server) (abort bool, psyncs []msource.Psync, acks []int64) {
	defer ev.Watch(fmt.Sprintf("end-to-end Sync() of stream %v (cut %d)", c.Names, c.Cut), 150*time.Second, c)()
	syncConfig{TargetDB: -1, Resume: true, SenderCount: c.Sender, SenderSize: 1 << 20}.apply()
	conf.Options.SourceType, conf.Options.TargetType = "standalone", "standalone"
	conf.Options.SourceAddressList, conf.Options.TargetAddressList = []string{"src:6379"}, []string{"tgt:6379"}
	conf.Options.SourcePasswordRaw, conf.Options.TargetPasswordRaw = "", ""
	conf.Options.SourceAuthType, conf.Options.TargetAuthType = "auth", "auth"
	conf.Options.Type = conf.TypeSync
	conf.Options.Parallel = 1
	conf.Options.Psync = true
	conf.Options.KeyExists = "rewrite"
	conf.Options.TargetReplace = true
	conf.Options.BigKeyThreshold = 1 << 30
	conf.Options.TargetVersion = ""
	conf.Options.HttpProfile = 9320 // announced with REPLCONF listening-port; the model master lists the tool as a replica on that port
	var stream []byte
	for _, w := range c.Word {
		stream = append(stream, syncSigma[w].bytes()...)
	}
	lateFrom := len(stream)
	if c.Late && len(c.Word) > 0 {
		lateFrom = len(stream) - len(syncSigma[c.Word[len(c.Word)-1]].bytes())
	}
	rdbFile := c04eRDB()
	var mu sync.Mutex
	hook.SetExitHook(func(int) {
		mu.Lock()
		abort = true
		mu.Unlock()
	})
	defer hook.SetExitHook(nil)
	defer hook.SetDialHook(nil)
	func() {
		defer func() { recover() }() // goroutines that never end by design stay frozen with the bubble
		synctest.Test(t, func(t *testing.T) {
			m := msource.New()
			m.PsyncReply = func(p msource.Psync) string {
				if p.RunID == "run-e2e" {
					return "+CONTINUE"
				}
				return "+FULLRESYNC run-e2e " + strconv.Itoa(c04eBase)
			}
			// every Sync() run allocates the production-size stream buffers (32 MiB + 8 MiB); so that
			// they become garbage, the run is torn down at the end: all connections are cut and every
			// goroutine of the tool that dials again ends there
			tearing := false
			var opened []*memconn.Conn
			hook.SetDialHook(func(network, addr string) (net.Conn, error, bool) {
				if tearing {
					runtime.Goexit()
				}
				cc, sc := memconn.Pair(addr)
				opened = append(opened, sc)
				if addr == syncSource {
					go m.Serve(sc)
				} else {
					go tgt.Serve(sc)
				}
				return cc, nil, true
			})
			node := &slot.SyncNode{Id: 7, Source: syncSource, Target: []string{"tgt:6379"}, SlotLeftBoundary: -1, SlotRightBoundary: -1}
			ds := NewDbSyncer(node, 9320, semaphore.NewWeighted(1))
			go ds.Sync()
			answered := 0
			var lateConn net.Conn
			var lateStart int64
			for step := 0; step < 8; step++ {
				synctest.Wait()
				ps := m.Psyncs()
				for answered < len(ps) {
					p := ps[answered]
					answered++
					conn := m.Conn(p.Conn)
					if p.RunID == "run-e2e" {
						// continue with the byte after the acknowledged offset
						from := p.Offset - 1 - c04eBase
						if from >= 0 && from <= int64(len(stream)) {
							to := int64(lateFrom)
							if to < from {
								to = from
							}
							conn.Write(stream[from:to])
							lateConn, lateStart = conn, to
						}
					} else {
						conn.Write([]byte(fmt.Sprintf("\n$%d\r\n", len(rdbFile))))
						conn.Write(rdbFile)
						conn.Write(stream[:lateFrom])
						lateConn, lateStart = conn, int64(lateFrom)
					}
				}
				time.Sleep(time.Second)
			}
			synctest.Wait()
			if c.Late && lateConn != nil && lateStart < int64(len(stream)) {
				time.Sleep(11 * time.Second)
				synctest.Wait()
				lateConn.Write(stream[lateStart:])
				for i := 0; i < 3; i++ {
					time.Sleep(time.Second)
					synctest.Wait()
				}
			}
			psyncs, acks = m.Psyncs(), m.Acks()
			mu.Lock()
			aborted := abort
			mu.Unlock()
			tearing = true
			for _, sc := range opened {
				sc.Cut()
			}
			for i := 0; i < 4; i++ {
				time.Sleep(time.Second)
				synctest.Wait()
			}
			mu.Lock()
			abort = aborted // aborts caused by the tear-down do not count
			mu.Unlock()
		})
	}()
	return
}

func c04eOne(t *testing.T, c c04eCase) (kind, what string, cuts int) {
	cfg := syncConfig{TargetDB: -1, Resume: true, StartOffset: c04eBase}
	full := mredis.New(mredis.Options{Registry: c04eReg})
	abort, psyncs, acks := c04eSync(t, c, full)
	if abort {
		return "abort", "the uninterrupted end-to-end run aborts", 0
	}
	if len(psyncs) != 1 || psyncs[0].RunID == "run-e2e" || psyncs[0].Offset != -1 {
		return "first-psync", fmt.Sprintf("a fresh start must ask for a full resync, got %+v", psyncs), 0
	}
	var streamLen int64
	for _, w := range c.Word {
		streamLen += int64(len(syncSigma[w].bytes()))
	}
	for i, a := range acks {
		if a > c04eBase+streamLen || (i > 0 && a < acks[i-1]) {
			return "ack", fmt.Sprintf("REPLCONF ACKs %v for a stream of %d bytes after offset %d", acks, streamLen, c04eBase), 0
		}
	}
	if len(acks) > 0 && acks[len(acks)-1] != c04eBase+streamLen {
		return "ack-final", fmt.Sprintf("after the stream went idle the last ACK is %d, expected %d", acks[len(acks)-1], c04eBase+streamLen), 0
	}
	// what must be on the target: the RDB key plus the fold of the stream
	want := mredis.New(mredis.Options{Registry: c04eReg})
	var cmds []mredis.Cmd
	cmds = append(cmds, mredis.Cmd{Conn: 1, Argv: [][]byte{[]byte("select"), []byte("1")}}, mredis.Cmd{Conn: 1, Argv: [][]byte{[]byte("set"), []byte("r"), []byte("from-rdb")}})
	ends := map[int64]bool{c04eBase: true}
	for _, e := range syncFold(cfg, c.Word) {
		cmds = append(cmds, mredis.Cmd{Conn: 1, Argv: [][]byte{[]byte("select"), []byte(strconv.Itoa(e.DB))}})
		var a [][]byte
		for _, x := range e.Argv {
			a = append(a, []byte(x))
		}
		cmds = append(cmds, mredis.Cmd{Conn: 1, Argv: a})
	}
	for _, it := range c04Forwarded(cfg, c.Word) {
		ends[it.End] = true
	}
	want.ReplayCommands(cmds)
	finalWant := want.SnapshotExcept(c04IsCheckpointKey)
	if got := full.SnapshotExcept(c04IsCheckpointKey); got != finalWant {
		return "final-dataset", fmt.Sprintf("uninterrupted end-to-end run ends with {%s}, source history gives {%s}", strings.Replace(got, "\n", "; ", -1), strings.Replace(finalWant, "\n", "; ", -1)), 0
	}
	recv := full.Received()
	// every offset the sender stored must be the position right after a forwarded command
	for _, r := range recv {
		if r.Name() == "hset" && len(r.Argv) == 4 && string(r.Argv[2]) == syncSource+"-offset" {
			o, _ := strconv.ParseInt(string(r.Argv[3]), 10, 64)
			if !ends[o] {
				return "stored-offset", fmt.Sprintf("checkpoint offset %d is not a stream position right after a forwarded command (valid: %v)", o, ends), 0
			}
		}
	}
	from, to := 0, len(recv)
	if c.Cut >= 0 {
		from, to = c.Cut, c.Cut
	}
	for cut := from; cut <= to; cut++ {
		st := mredis.New(mredis.Options{Registry: c04eReg})
		st.ReplayCommands(recv[:cut])
		ab, ps, _ := c04eSync(t, c, st)
		cuts++
		if ab {
			return "restart-abort", fmt.Sprintf("restart after a cut behind %d of %d target commands aborts", cut, len(recv)), cuts
		}
		if len(ps) != 1 {
			return "restart-psync", fmt.Sprintf("restart after cut %d: PSYNCs %+v", cut, ps), cuts
		}
		if ps[0].RunID == "run-e2e" && !ends[ps[0].Offset-1] {
			return "restart-offset", fmt.Sprintf("restart after cut %d asks PSYNC %s %d: offset-1 is not a position right after a forwarded command", cut, ps[0].RunID, ps[0].Offset), cuts
		}
		if got := st.SnapshotExcept(c04IsCheckpointKey); got != finalWant {
			return "restart-dataset", fmt.Sprintf("cut behind %d of %d target commands, restart (PSYNC %s %d): final dataset {%s} differs from the uninterrupted run's {%s}",
				cut, len(recv), ps[0].RunID, ps[0].Offset, strings.Replace(got, "\n", "; ", -1), strings.Replace(finalWant, "\n", "; ", -1)), cuts
		}
	}
	return "", "", cuts
}

func TestVerif_C04E(t *testing.T) {
	defer ev.Flush("C04")
	log.SetLevel(log.LEVEL_NONE)
	if ev.ReplayFile() != "" {
		log.SetLevel(log.LEVEL_INFO)
		var c c04eCase
		if err := ev.LoadReplay(&c); err != nil || c.Sender == 0 {
			return
		}
		k, w, _ := c04eOne(t, c)
		t.Logf("replay %v cut %d -> %s %s", c.Names, c.Cut, k, w)
		if k != "" {
			ev.Violate("C04|e2e-"+k, w, c)
		}
		return
	}
	sym := func(name string) int {
		for i, s := range syncSigma {
			if s.Name == name {
				return i
			}
		}
		panic(name)
	}
	histories := [][]string{
		{"SELECT1", "INCR", "RPUSH"},
		{"SELECT0", "INCR", "SELECT1", "INCR"},
		{"SELECT1", "MULTI", "INCR", "APPEND", "EXEC", "PING", "INCR"},
		{"SELECT0", "APPEND", "PING", "NEWLINE", "RPUSH"},
		{"SELECT1", "SET", "DEL", "SELECT0", "RPUSH", "INCR"},
		{"SELECT0", "RPUSH", "SENTINEL", "RPUSH", "SELECT1", "APPEND"},
	}
	if ev.Thorough() {
		names := []string{"SELECT0", "SELECT1", "INCR", "RPUSH", "APPEND", "PING"}
		for _, a := range names {
			for _, b := range names {
				for _, c := range names {
					histories = append(histories, []string{"SELECT0", a, b, c})
				}
			}
		}
	}
	var n, idx, ncuts int64
	for hi, h := range histories {
		for si, sc := range []uint{1, 1024} {
			idx++
			if !ev.Mine(idx) {
				continue
			}
			if ev.OverBudget() {
				ev.Cap("time budget")
				break
			}
			var word []int
			for _, s := range h {
				word = append(word, sym(s))
			}
			c := c04eCase{Word: word, Names: h, Cut: -1, Sender: sc, Late: (hi+si)%2 == 1}
			k, w, cuts := c04eOne(t, c)
			n++
			ncuts += int64(cuts)
			if k != "" {
				ev.Violate("C04|e2e-"+k, fmt.Sprintf("%s (history %v, sender.count=%d)", w, h, sc), c)
			}
			ev.Outcome("e2e:" + k)
			hh := ev.HashS(fmt.Sprint("e2e", h, sc))
			ev.State(hh)
			ev.Nontrivial(hh)
			if n == 1 {
				ev.Sample("end-to-end", map[string]interface{}{"history": h, "sender_count": sc, "cut_points": cuts})
			}
		}
	}
	ev.Eval(n + ncuts)
	ev.Trace(n + ncuts)
	ev.Trans(ncuts * 8)
	ev.Count("e2e_cut_points_checked", ncuts)
}
