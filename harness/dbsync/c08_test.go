// C08: offsets reported to the source are exactly 'start offset + bytes consumed'.
// The real runIncrementalSync / pSyncPipeCopy / reconnect loop runs against a model master; the
// real parser consumes the pipe so that command tags are checked against true stream positions.
// Unexported identifiers used: DbSyncer fields, runIncrementalSync, parseSourceCommand, cmdDetail.
package dbSync

import (
	"bufio"
	"errors"
	"fmt"
	"net"
	"runtime"
	"strings"
	"sync"
	"testing"
	"testing/synctest"
	"time"

	"github.com/alibaba/RedisShake/pkg/libs/io/pipe"
	"github.com/alibaba/RedisShake/pkg/libs/log"
	"github.com/alibaba/RedisShake/verifrt/ev"
	"github.com/alibaba/RedisShake/verifrt/hook"
	"github.com/alibaba/RedisShake/verifrt/memconn"
	"github.com/alibaba/RedisShake/verifrt/msource"
	"github.com/alibaba/RedisShake/verifrt/seqx"
)

type c08Case struct {
	Start int64 `json:"start_offset"`
	Steps int   `json:"steps"`
	Trail []int `json:"trail"`
	// FullUntil: 0: the incremental phase from the start; k>0: the full phase (WaitFull open) lasts
	// until just before stimulus k (k > steps: until the settle phase)
	FullUntil int `json:"full_phase_until_step,omitempty"`
	// Refusals: the dial answers include "accepted, but the PSYNC is answered with -LOADING"
	Refusals bool `json:"psync_refusals,omitempty"`
}

var c08Stream []byte
var c08Ends []int // stream position after each command

func c08Init() {
	if c08Stream != nil {
		return
	}
	for i := 0; len(c08Stream) < 60000; i++ {
		k := fmt.Sprintf("key%d", i)
		v := strings.Repeat("v", i%13)
		c08Stream = append(c08Stream, []byte(fmt.Sprintf("*3\r\n$3\r\nSET\r\n$%d\r\n%s\r\n$%d\r\n%s\r\n", len(k), k, len(v), v))...)
		c08Ends = append(c08Ends, len(c08Stream))
		if i%5 == 0 {
			c08Stream = append(c08Stream, '\n') // keep-alive newline: stream bytes that belong to no command
		}
	}
}

type c08Tag struct {
	Key    string
	Offset int64
}

var c08StimNames = []string{"tick", "deliver7", "deliver8193", "cut"}

// c08Run executes one stimulus sequence. Returns violation kind/what.
func c08Run(t *testing.T, c c08Case, ch *seqx.Chooser) (kind, what string, trace []string) {
	c08Init()
	cfg := syncConfig{TargetDB: -1, SenderCount: 1024, SenderSize: 1 << 20, StartOffset: c.Start}
	cfg.apply()
	var mu sync.Mutex
	abort := ""
	hook.SetExitHook(func(int) {
		mu.Lock()
		if abort == "" {
			abort = "log.Panic"
		}
		mu.Unlock()
	})
	defer hook.SetExitHook(nil)
	defer hook.SetDialHook(nil)
	bad := func(k, w string) {
		if kind == "" {
			kind, what = k, w
		}
	}
	func() {
		defer func() {
			if x := recover(); x != nil {
				trace = append(trace, fmt.Sprintf("bubble: %v", x))
			}
		}()
		synctest.Test(t, func(t *testing.T) {
			m := msource.New()
			var tags []c08Tag
			sent := 0 // bytes of the stream handed to the tool so far (on all connections)
			connected := true
			dials := 0
			// the master's answer to a reconnect PSYNC: alone, or in one write with the next 7 bytes
			// of the stream (the tool must not lose what it read beyond the status line)
			piggyback := false
			var sentAtPsync []int
			m.PsyncExtra = func(p msource.Psync) []byte {
				sentAtPsync = append(sentAtPsync, sent)
				if !piggyback {
					return nil
				}
				k := 7
				if sent+k > len(c08Stream) {
					k = len(c08Stream) - sent
				}
				b := c08Stream[sent : sent+k]
				sent += k
				return b
			}
			// a master that is not ready answers the reconnect PSYNC with an error (once per execution):
			// the tool waits and dials again, and must ask for the same position
			refuseNext, refusals, keepOpen := false, 0, false
			refusedPsync := map[int]bool{}
			m.PsyncReply = func(p msource.Psync) string {
				if refuseNext {
					refuseNext = false
					refusedPsync[len(sentAtPsync)] = true
					return "-LOADING Redis is loading the dataset in memory"
				}
				return "+CONTINUE"
			}
			hook.SetDialHook(func(network, addr string) (net.Conn, error, bool) {
				dials++
				nd := 3
				if c.Refusals && refusals == 0 {
					nd = 5
				}
				d := ch.Choose(nd)
				if d == 1 {
					trace = append(trace, "dial-refused")
					return nil, errors.New("connection refused"), true
				}
				if d == 3 || d == 4 {
					refuseNext = true
					refusals++
					keepOpen = d == 4
					if keepOpen {
						trace = append(trace, "dial-ok(PSYNC answered -LOADING, the link stays open)")
					} else {
						trace = append(trace, "dial-ok(PSYNC answered -LOADING)")
					}
				}
				piggyback = d == 2
				cc, sc := memconn.Pair(fmt.Sprintf("source%d", dials))
				go m.Serve(sc)
				if piggyback {
					trace = append(trace, "dial-ok(+CONTINUE and 7 stream bytes in one write)")
				} else if d < 3 {
					trace = append(trace, "dial-ok")
				}
				return cc, nil, true
			})
			c0, s0 := memconn.Pair("source0")
			go m.Serve(s0)
			ds := syncNewDs(cfg)
			fullOpen := c.FullUntil > 0
			if fullOpen {
				ds.WaitFull = make(chan struct{})
			}
			endFull := func() {
				if fullOpen {
					close(ds.WaitFull)
					fullOpen = false
					trace = append(trace, "full-phase-ends")
				}
			}
			piper, pipew := pipe.NewSize(1 << 20)
			go ds.parseSourceCommand(bufio.NewReaderSize(piper, 4096))
			go func() {
				for item := range ds.sendBuf {
					k := ""
					if len(item.Args) > 0 {
						k = string(item.Args[0].([]byte))
					}
					mu.Lock()
					tags = append(tags, c08Tag{k, item.Offset})
					mu.Unlock()
				}
			}()
			go ds.runIncrementalSync(c0, bufio.NewReaderSize(c0, 4096), bufio.NewWriterSize(c0, 4096), 0, "run-1", syncSource, "auth", "", false, pipew, true)
			synctest.Wait()
			seenAcks, seenPsyncs := 0, 0
			var lastAck int64 = -1
			check := func(afterTick bool) {
				acks := m.Acks()
				if fullOpen {
					for _, a := range acks[seenAcks:] {
						if a != 0 {
							bad("ack-during-full", fmt.Sprintf("REPLCONF ACK %d while the full phase is still running (must be 0)", a))
						}
					}
					seenAcks = len(acks)
					afterTick = false
				}
				for _, a := range acks[seenAcks:] {
					if a > c.Start+int64(sent) {
						bad("ack-ahead", fmt.Sprintf("REPLCONF ACK %d but only %d bytes were received after start offset %d (= %d)", a, sent, c.Start, c.Start+int64(sent)))
					}
					if a < lastAck {
						bad("ack-decreases", fmt.Sprintf("REPLCONF ACK %d after ACK %d", a, lastAck))
					}
					lastAck = a
				}
				if afterTick && connected && len(acks) > seenAcks && lastAck != c.Start+int64(sent) {
					bad("ack-behind", fmt.Sprintf("after an idle acknowledgement tick the ACK is %d, received so far %d (start %d + %d bytes)", lastAck, c.Start+int64(sent), c.Start, sent))
				}
				seenAcks = len(acks)
				ps := m.Psyncs()
				for i, p := range ps[seenPsyncs:] {
					sentThen := sent
					if seenPsyncs+i < len(sentAtPsync) {
						sentThen = sentAtPsync[seenPsyncs+i]
					}
					want := c.Start + int64(sentThen) + 1
					if p.Offset != want || p.RunID != "run-1" {
						bad("psync-offset", fmt.Sprintf("reconnect sends PSYNC %s %d, expected PSYNC run-1 %d (start %d + %d bytes received + 1)", p.RunID, p.Offset, want, c.Start, sentThen))
					}
					if refusedPsync[seenPsyncs+i] {
						// the master said no; it either closes the link or, like a loading redis, keeps it
						// open: whatever the tool sends on it next is judged like any other PSYNC
						if cn := m.Conn(p.Conn); cn != nil && !keepOpen {
							cn.(*memconn.Conn).Cut()
						}
						continue
					}
					connected = true
				}
				seenPsyncs = len(ps)
			}
			ncuts := 0
			for step := 0; step < c.Steps && kind == ""; step++ {
				if step+1 == c.FullUntil {
					endFull()
				}
				opts := 4
				if !connected {
					opts = 1 // only time can pass until the tool has reconnected
				} else if ncuts >= 2 {
					opts = 3
				}
				s := ch.Choose(opts)
				trace = append(trace, c08StimNames[s])
				switch s {
				case 0:
					time.Sleep(time.Second)
					synctest.Wait()
					check(true)
				case 1, 2:
					k := 7
					if s == 2 {
						k = 8193
					}
					if sent+k > len(c08Stream) {
						k = len(c08Stream) - sent
					}
					m.Conn(-1).Write(c08Stream[sent : sent+k])
					sent += k
					synctest.Wait()
					check(false)
				case 3:
					m.Conn(-1).(*memconn.Conn).Cut()
					connected = false
					ncuts++
					synctest.Wait()
					check(false)
				}
			}
			// settle: let the tool reconnect and acknowledge
			if fullOpen {
				time.Sleep(time.Second)
				synctest.Wait()
				check(false)
				endFull()
			}
			for i := 0; i < 3 && kind == ""; i++ {
				time.Sleep(time.Second)
				synctest.Wait()
				check(connected)
			}
			// after a refused PSYNC the tool waits 30 s before it dials again
			for i := 0; i < 45 && kind == "" && !connected && refusals > 0; i++ {
				time.Sleep(time.Second)
				synctest.Wait()
				check(connected)
			}
			mu.Lock()
			if abort != "" {
				bad("abort", "the tool aborts during the incremental phase")
			}
			// tags: every fully received command must carry its true end position
			n := 0
			for n < len(c08Ends) && c08Ends[n] <= sent {
				n++
			}
			if kind == "" {
				if len(tags) != n {
					bad("commands-lost-or-repeated", fmt.Sprintf("%d complete commands were received in %d bytes but the parser delivered %d (stream must continue at the exact byte after a reconnect)", n, sent, len(tags)))
				} else {
					for i, tg := range tags {
						if want := c.Start + int64(c08Ends[i]); tg.Offset != want || tg.Key != fmt.Sprintf("key%d", i) {
							bad("tag", fmt.Sprintf("command %d (%s) is tagged with offset %d, its true end position is %d (start %d + %d)", i, tg.Key, tg.Offset, want, c.Start, c08Ends[i]))
							break
						}
					}
				}
			}
			mu.Unlock()
			// tear down
			// the reconnect loop never ends by itself: end its goroutine at the next dial
			hook.SetDialHook(func(network, addr string) (net.Conn, error, bool) { runtime.Goexit(); return nil, nil, true })
			for i := 0; i < m.NumConns(); i++ {
				m.Conn(i).(*memconn.Conn).Cut()
			}
			piper.Close()
			time.Sleep(1100 * time.Millisecond)
			synctest.Wait()
			time.Sleep(1100 * time.Millisecond)
			synctest.Wait()
			close(ds.sendBuf)
		})
	}()
	return
}

func TestVerif_C08(t *testing.T) {
	defer ev.Flush("C08")
	log.SetLevel(log.LEVEL_NONE)
	if ev.ReplayFile() != "" {
		var c c08Case
		if err := ev.LoadReplay(&c); err != nil {
			t.Fatal(err)
		}
		for i := 0; i < 2; i++ {
			k, w, tr := c08Run(t, c, seqx.NewReplay(c.Trail))
			t.Logf("replay %v -> %s %s", tr, k, w)
			if k != "" {
				ev.Violate("C08|"+k, w, c)
			}
		}
		return
	}
	steps, dev := 5, -1
	starts := []int64{0, 1, 1 << 31, 1 << 40}
	if ev.Thorough() {
		steps = 7
	}
	ev.Bound("stimuli_per_execution", steps)
	ev.Bound("stimulus_alphabet", c08StimNames)
	ev.Bound("max_cuts", 2)
	var n, trans int64
	type c08Cfg struct {
		start     int64
		fullUntil int
		refusals  bool
	}
	var cfgs []c08Cfg
	for _, start := range starts {
		cfgs = append(cfgs, c08Cfg{start, 0, false})
	}
	// the full phase is still running for the first stimuli / for all of them
	cfgs = append(cfgs, c08Cfg{1 << 31, 3, false}, c08Cfg{5000000000, 99, false})
	// reconnects whose PSYNC is refused once (-LOADING): shorter stimulus sequences, the wait is long
	cfgs = append(cfgs, c08Cfg{3, 0, true})
	for si, cf := range cfgs {
		start := cf.start
		st := steps
		if si > 0 && !ev.Thorough() {
			st = 4
		}
		if cf.refusals {
			st = 3
			if ev.Thorough() {
				st = 5
			}
		}
		c := c08Case{Start: start, Steps: st, FullUntil: cf.fullUntil, Refusals: cf.refusals}
		opt := seqx.Options{MaxDev: dev, ShardDepth: 2, Mine: func(p []int) bool {
			h := int64(0)
			for _, v := range p {
				h = h*5 + int64(v)
			}
			return ev.Mine(h)
		}, Stop: ev.OverBudget}
		_, complete := seqx.Explore(opt, func(ch *seqx.Chooser) {
			k, w, tr := c08Run(t, c, ch)
			if !ch.Owned() {
				return
			}
			n++
			trans += int64(len(tr))
			cc := c
			cc.Trail = append([]int{}, ch.Trail...)
			h := ev.HashS(fmt.Sprint(start, cf.fullUntil, ch.Trail))
			ev.State(h)
			nt := false
			for _, s := range tr {
				if s == "tick" {
					nt = true
				}
			}
			if nt {
				ev.Nontrivial(h)
			}
			if k != "" {
				ev.Violate("C08|"+k, fmt.Sprintf("%s (start offset %d, stimuli %v)", w, start, tr), cc)
				ev.Outcome(k)
			} else {
				ev.Outcome("ok")
			}
			if n%300 == 1 {
				ev.Sample("execution", map[string]interface{}{"start": start, "stimuli": tr})
			}
		})
		if !complete {
			ev.Cap("time budget")
		}
	}
	ev.Eval(n)
	ev.Trace(n)
	ev.Trans(trans)
}
