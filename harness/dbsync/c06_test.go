// C06 (sync paths): filters are honoured identically in the full and the incremental phase.
// One execution carries the whole key domain in every database, so every (db, key) decision of
// a configuration is observed at once. Reference: engine/kit06.
package dbSync

import (
	"bufio"
	"bytes"
	"fmt"
	"net"
	"strings"
	"testing"

	"github.com/alibaba/RedisShake/pkg/libs/log"
	conf "github.com/alibaba/RedisShake/redis-shake/configure"
	"github.com/alibaba/RedisShake/verifrt/crcref"
	"github.com/alibaba/RedisShake/verifrt/ev"
	"github.com/alibaba/RedisShake/verifrt/hook"
	"github.com/alibaba/RedisShake/verifrt/kit06"
	"github.com/alibaba/RedisShake/verifrt/memconn"
	"github.com/alibaba/RedisShake/verifrt/mredis"
	"github.com/alibaba/RedisShake/verifrt/rdbgen"
	"github.com/alibaba/RedisShake/verifrt/seqx"
)

type c06Case struct {
	Path string       `json:"path"`
	Cfg  kit06.Config `json:"config"`
	// TargetDB (incremental path): 0 means target.db=-1 (keep the source database), n>0 means
	// everything is written into database n-1 of the target
	TargetDB int `json:"target_db_plus1"`
	// RefuseScript (full path): the target answers SCRIPT LOAD with an error
	RefuseScript bool `json:"target_refuses_script_load,omitempty"`
}

var c06Reg = mredis.NewRegistry()

func c06Collect(srv *mredis.Server) map[string]bool {
	got := map[string]bool{}
	for _, db := range kit06.DBs {
		for _, k := range srv.Keys(db) {
			got[fmt.Sprintf("%d/%s", db, k)] = true
		}
	}
	return got
}

func c06Full(c c06Case) (string, string) {
	var items []rdbgen.Item
	for _, db := range kit06.DBs {
		items = append(items, rdbgen.SelectDB(uint32(db), rdbgen.LCanon))
		for _, k := range kit06.Keys() {
			v := rdbgen.StringVal(rdbgen.RawStr([]byte(kit06.Marker(db)), rdbgen.LCanon))
			c06Reg.Add(v.Type, v.Raw, v.Log)
			items = append(items, rdbgen.Key(rdbgen.RawStr([]byte(k), rdbgen.LCanon), v, rdbgen.KeyOpts{}))
		}
	}
	items = append(items, rdbgen.Aux(rdbgen.RawStr([]byte("lua"), rdbgen.LCanon), rdbgen.RawStr([]byte("return 1"), rdbgen.LCanon)))
	file, _ := rdbgen.File(9, items)
	syncConfig{TargetDB: c.TargetDB - 1, SenderCount: 16, SenderSize: 1 << 20}.apply()
	c.Cfg.Apply()
	defer kit06.Reset()
	conf.Options.Parallel = 2
	conf.Options.KeyExists = "none"
	if c.TargetDB != 0 {
		conf.Options.KeyExists = "rewrite" // the same key name arrives from several source databases
	}
	conf.Options.BigKeyThreshold = 1 << 30
	conf.Options.TargetVersion = ""
	conf.Options.TargetType = "standalone"
	scriptRefused := false
	srv := mredis.New(mredis.Options{Registry: c06Reg, ReplyHook: func(cmd mredis.Cmd) []byte {
		if c.RefuseScript && cmd.Name() == "script" {
			scriptRefused = true
			return []byte("-BUSY Redis is busy running a script. You can only call SCRIPT KILL or SHUTDOWN NOSAVE.\r\n")
		}
		return nil
	}})
	hook.SetDialHook(func(network, addr string) (net.Conn, error, bool) {
		cc, sc := memconn.Pair("target")
		go srv.Serve(sc)
		return cc, nil, true
	})
	defer hook.SetDialHook(nil)
	aborted := false
	hook.SetExitHook(func(int) { aborted = true })
	defer hook.SetExitHook(nil)
	ds := syncNewDs(syncConfig{TargetDB: c.TargetDB - 1, SenderCount: 16})
	var err error
	done := make(chan struct{})
	go func() {
		defer close(done)
		err = ds.syncRDBFile(bufio.NewReaderSize(bytes.NewReader(file), 4096), []string{"target:6379"}, "auth", "", int64(len(file)), false)
	}()
	<-done
	if scriptRefused {
		// the script the filter lets through did not reach the target: the full sync must not
		// report success
		if !aborted && err == nil {
			return "script-refusal-ignored", "the target answered SCRIPT LOAD with an error and the full sync reports success without the script"
		}
		return "", ""
	}
	if aborted || err != nil {
		return "abort", fmt.Sprintf("full sync fails: %v", err)
	}
	var cmds []kit06.AppliedCmd
	for _, a := range srv.Applied() {
		cmds = append(cmds, kit06.AppliedCmd{DB: a.DB, Argv: a.Argv})
	}
	got, k, w := kit06.Observed(cmds, c.TargetDB-1)
	if k != "" {
		return k, w
	}
	if k, w := kit06.Compare(c.Cfg, "full", got); k != "" {
		return k, w
	}
	if n := len(srv.Scripts()); (n == 1) == c.Cfg.Lua {
		return "lua-script", fmt.Sprintf("filter.lua=%v but %d scripts were loaded", c.Cfg.Lua, n)
	}
	return "", ""
}

// c06BigFile: small keys and two hashes beyond the 16 MiB chunk limit (the parser delivers each of
// them as several entries, which different workers pick up), in an order in which a worker that
// has just judged another key continues with a piece of a big one.
var c06BigOnce struct {
	file []byte
	keys []string
}

const c06BigFields, c06BigFieldLen = 7, 6 << 20

func c06BigFile() ([]byte, []string) {
	if c06BigOnce.file != nil {
		return c06BigOnce.file, c06BigOnce.keys
	}
	str := func(s string) rdbgen.Str { return rdbgen.RawStr([]byte(s), rdbgen.LCanon) }
	small := func(k string) rdbgen.Item {
		v := rdbgen.StringVal(str(kit06.Marker(0)))
		c06Reg.Add(v.Type, v.Raw, v.Log)
		return rdbgen.Key(str(k), v, rdbgen.KeyOpts{})
	}
	big := func(k string) rdbgen.Item {
		var el []rdbgen.Str
		for i := 0; i < c06BigFields; i++ {
			val := make([]byte, c06BigFieldLen)
			for j := 0; j < len(val); j += 4093 {
				val[j] = byte(j + i)
			}
			el = append(el, str(fmt.Sprintf("f%d", i)), rdbgen.RawStr(val, rdbgen.LCanon))
		}
		return rdbgen.Key(str(k), rdbgen.HashVal(el, rdbgen.LCanon), rdbgen.KeyOpts{})
	}
	keys := []string{"a1", "b1", "abig", "b2", "a2", "bbig", "a3", "b3"}
	items := []rdbgen.Item{rdbgen.SelectDB(0, rdbgen.LCanon)}
	for i, k := range keys {
		if i == 2 {
			// from the first big hash on everything lives in database 3: the workers that pick up its
			// later pieces have not seen that database yet
			items = append(items, rdbgen.SelectDB(3, rdbgen.LCanon))
		}
		if strings.HasSuffix(k, "big") {
			items = append(items, big(k))
		} else {
			items = append(items, small(k))
		}
	}
	c06BigOnce.file, _ = rdbgen.File(9, items)
	c06BigOnce.keys = keys
	return c06BigOnce.file, keys
}

func c06FullBig(c c06Case) (string, string) {
	file, keys := c06BigFile()
	syncConfig{TargetDB: -1, SenderCount: 16, SenderSize: 1 << 20}.apply()
	c.Cfg.Apply()
	defer kit06.Reset()
	conf.Options.Parallel = 4
	conf.Options.KeyExists = "none"
	conf.Options.BigKeyThreshold = 1 << 30
	conf.Options.TargetVersion = ""
	conf.Options.TargetType = "standalone"
	srv := mredis.New(mredis.Options{Registry: c06Reg})
	hook.SetDialHook(func(network, addr string) (net.Conn, error, bool) {
		cc, sc := memconn.Pair("target")
		go srv.Serve(sc)
		return cc, nil, true
	})
	defer hook.SetDialHook(nil)
	aborted := false
	hook.SetExitHook(func(int) { aborted = true })
	defer hook.SetExitHook(nil)
	ds := syncNewDs(syncConfig{TargetDB: -1, SenderCount: 16})
	err := ds.syncRDBFile(bufio.NewReaderSize(bytes.NewReader(file), 4096), []string{"target:6379"}, "auth", "", int64(len(file)), false)
	if aborted || err != nil {
		return "abort", fmt.Sprintf("full sync fails: %v", err)
	}
	for i, k := range keys {
		want := kit06.Passes(c.Cfg, "full", 0, k)
		db, other := 0, 3
		if i >= 2 {
			db, other = 3, 0
		}
		if stray := srv.Lookup(other, k); stray != nil {
			return "key-in-wrong-db", fmt.Sprintf("key %q of source db %d (or a part of it: %d hash fields) was written into target db %d", k, db, len(stray.Hash), other)
		}
		e := srv.Lookup(db, k)
		switch {
		case !want && e != nil:
			return "excluded-key-reached-target", fmt.Sprintf("key %q is excluded by the configuration and exists on the target (%d hash fields)", k, len(e.Hash))
		case want && e == nil:
			return "passing-key-missing", fmt.Sprintf("key %q passes the configuration and is missing on the target", k)
		case want && strings.HasSuffix(k, "big"):
			if len(e.Hash) != c06BigFields {
				return "passing-key-incomplete", fmt.Sprintf("hash %q (delivered in several pieces) passes the configuration and has %d of %d fields on the target", k, len(e.Hash), c06BigFields)
			}
			for f, v := range e.Hash {
				if len(v) != c06BigFieldLen {
					return "passing-key-incomplete", fmt.Sprintf("hash %q field %q has %d bytes, expected %d", k, f, len(v), c06BigFieldLen)
				}
			}
		}
	}
	return "", ""
}

func c06Incr(t *testing.T, c c06Case) (string, string) {
	var segs [][]byte
	cmd := func(argv ...string) {
		segs = append(segs, srcSym{Argv: argv}.bytes())
	}
	// every SET carries its source database in the value, so that the decision for (db, key) is
	// observable in the target's command log even when target.db folds all databases into one
	sent := map[string]int{}
	// the master replicates a command name the way the client spelled it
	spell := []string{"set", "SET", "Set", "sEt", "SeT", "seT"}
	nset := 0
	set := func(db int, k string) {
		nset++
		cmd(spell[nset%len(spell)], k, fmt.Sprintf("v%d", db))
		sent[fmt.Sprintf("%d/%s", db, k)]++
	}
	for _, db := range kit06.DBs {
		cmd("SELECT", fmt.Sprint(db))
		for _, k := range kit06.Keys() {
			set(db, k)
		}
		cmd("EVAL", "return 1", "0")
		cmd("evalsha", "abc", "0")
		cmd("ScRiPt", "load", "return 2")
		cmd("OpInfo", "x")
		cmd("PUBLISH", "__sentinel__:hello", "x")
	}
	// second visit in reverse order (the master re-selects a database it has used before; the
	// last database is selected twice in a row)
	for i := len(kit06.DBs) - 1; i >= 0; i-- {
		db := kit06.DBs[i]
		cmd("SELECT", fmt.Sprint(db))
		for _, k := range kit06.Keys() {
			if len(k) == 1 {
				set(db, k)
			}
		}
	}
	// one segment: the whole stream
	var all []byte
	for _, s := range segs {
		all = append(all, s...)
	}
	cfg := syncConfig{TargetDB: c.TargetDB - 1, SenderCount: 64, SenderSize: 1 << 20, StartOffset: 0}
	srv := mredis.New(mredis.Options{})
	// syncExecute applies cfg first; the filter lists of this case are installed on top
	restore := func() { kit06.Reset() }
	defer restore()
	res := syncExecuteWith(t, cfg, [][]byte{all}, srv, seqx.NewReplay(nil), c.Cfg.Apply)
	if res.Abort != "" {
		return "abort", "incremental sync aborts"
	}
	got := map[string]bool{}
	cnt := map[string]int{}
	scripts := map[int]int{}
	curSrc := -1 // source database of the most recent forwarded SET (script commands carry none)
	for _, a := range res.Applied {
		n := a.Name()
		switch {
		case n == "set" && len(a.Argv) == 3 && strings.HasPrefix(string(a.Argv[2]), "v"):
			src := 0
			fmt.Sscanf(string(a.Argv[2]), "v%d", &src)
			want := src
			if c.TargetDB != 0 {
				want = c.TargetDB - 1
			}
			if a.DB != want {
				return "wrong-target-db", fmt.Sprintf("key %q of source db %d was written into target db %d, expected %d", string(a.Argv[1]), src, a.DB, want)
			}
			got[fmt.Sprintf("%d/%s", src, string(a.Argv[1]))] = true
			cnt[fmt.Sprintf("%d/%s", src, string(a.Argv[1]))]++
			curSrc = src
		case n == "eval" || n == "evalsha" || n == "script":
			scripts[a.DB]++
		case n == "opinfo":
			return "bookkeeping-forwarded", "the internal OPINFO command reached the target"
		case n == "publish":
			return "sentinel-forwarded", "a sentinel hello publish reached the target"
		}
	}
	_ = curSrc
	if k, w := kit06.Compare(c.Cfg, "incr", got); k != "" {
		return k, w
	}
	for key, n := range cnt {
		if n != sent[key] {
			return "count", fmt.Sprintf("%s was sent %d times by the source and forwarded %d times", key, sent[key], n)
		}
	}
	// script commands: forwarded exactly when filter.lua is off (and the database passes)
	wantScripts := map[int]int{}
	for _, db := range kit06.DBs {
		if kit06.DBPasses(c.Cfg, db) && !c.Cfg.Lua {
			tdb := db
			if c.TargetDB != 0 {
				tdb = c.TargetDB - 1
			}
			wantScripts[tdb] += 3
		}
	}
	for _, db := range append([]int{c.TargetDB - 1}, kit06.DBs...) {
		if scripts[db] != wantScripts[db] {
			return "script-commands", fmt.Sprintf("target db %d: %d script commands were forwarded, expected %d (filter.lua=%v)", db, scripts[db], wantScripts[db], c.Cfg.Lua)
		}
	}
	return "", ""
}

func TestVerif_C06(t *testing.T) {
	defer ev.Flush("C06")
	log.SetLevel(log.LEVEL_NONE)
	if ev.ReplayFile() != "" {
		var c c06Case
		if err := ev.LoadReplay(&c); err != nil {
			t.Fatal(err)
		}
		var k, w string
		switch c.Path {
		case "full":
			k, w = c06Full(c)
		case "incr":
			k, w = c06Incr(t, c)
		case "fullbig":
			k, w = c06FullBig(c)
		default:
			return
		}
		t.Logf("replay %s %s -> %s %s", c.Path, c.Cfg, k, w)
		if k != "" {
			ev.Violate("C06|"+c.Path+"|"+k, w, c)
		}
		return
	}
	level := 1 // key lists fully crossed with db lists
	var n, idx int64
	nk := int64(len(kit06.Keys()) * len(kit06.DBs))
	for _, path := range []string{"full", "incr"} {
		for _, cfg := range kit06.Configs(path, level) {
			idx++
			if !ev.Mine(idx) {
				continue
			}
			if ev.OverBudget() {
				ev.Cap("time budget")
				break
			}
			// incremental path: target.db = -1 and every fixed target database that coincides with a
			// source database (filtered or not), plus one the source never selects
			tdbs := []int{0}
			for _, db := range kit06.DBs {
				tdbs = append(tdbs, db+1)
			}
			tdbs = append(tdbs, 5+1)
			for _, tdb := range tdbs {
				c := c06Case{Path: path, Cfg: cfg, TargetDB: tdb}
				var k, w string
				if path == "full" {
					k, w = c06Full(c)
					if k == "" && tdb == 0 {
						c.RefuseScript = true
						k, w = c06Full(c)
						n++
					}
				} else {
					k, w = c06Incr(t, c)
				}
				n++
				if k != "" {
					ev.Violate("C06|"+path+"|"+k, fmt.Sprintf("%s (path %s, target.db=%d, %s)", w, path, tdb-1, cfg), c)
				}
				ev.Outcome(path + ":" + k)
				h := ev.HashS(fmt.Sprintf("%s%s%d", path, cfg.String(), tdb))
				ev.State(h)
				if strings.Contains(cfg.String(), "[") {
					ev.Nontrivial(h)
				}
			}
			if n%40 == 1 {
				ev.Sample(path, map[string]interface{}{"config": cfg, "keys_per_db": len(kit06.Keys()), "dbs": kit06.DBs})
			}
		}
	}
	// full phase with values beyond the chunk limit: the decision for a key holds for every piece
	sBig := fmt.Sprint(crcref.Slot([]byte("abig")))
	for _, cfg := range []kit06.Config{{}, {KeyWhite: []string{"a"}}, {KeyBlack: []string{"a"}}, {KeyWhite: []string{"b"}}, {KeyBlack: []string{"b", "x"}}, {Slots: []string{sBig}}, {KeyWhite: []string{"a", "b"}, Slots: []string{fmt.Sprint(crcref.Slot([]byte("bbig"))), fmt.Sprint(crcref.Slot([]byte("a2")))}}} {
		idx++
		if !ev.Mine(idx) {
			continue
		}
		c := c06Case{Path: "fullbig", Cfg: cfg}
		k, w := c06FullBig(c)
		n++
		if k != "" {
			ev.Violate("C06|fullbig|"+k, fmt.Sprintf("%s (full sync, parallel=4, %s)", w, cfg), c)
		}
		ev.Outcome("fullbig:" + k)
		h := ev.HashS("fullbig" + cfg.String())
		ev.State(h)
		ev.Nontrivial(h)
		ev.Sample("fullbig", map[string]interface{}{"config": cfg, "hash_fields": c06BigFields, "field_MiB": c06BigFieldLen >> 20})
	}
	ev.Eval(n)
	ev.Trace(n)
	ev.Trans(n * nk)
	ev.Count("key_decisions_observed", n*nk)
}
