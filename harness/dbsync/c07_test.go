// C07: parallel full sync restores every key exactly once into the right database.
// The real syncRDBFile runs with N workers against ONE model Redis that holds every request
// until the explorer grants it: a schedule is the sequence of grants (shared code: engine/kit07).
// Unexported identifiers used: DbSyncer fields, syncRDBFile.
package dbSync

import (
	"bufio"
	"bytes"
	"testing"

	"github.com/alibaba/RedisShake/verifrt/kit07"
)

func TestVerif_C07(t *testing.T) {
	kit07.Main(t, "sync", func(c kit07.Case, file []byte, report func(error)) {
		// a retry runs on the same syncer object, like `go ds.Sync()` after a failed full sync
		var ds *DbSyncer
		if kit07.Attempt == 2 {
			ds = kit07.Shared.(*DbSyncer)
		} else {
			ds = syncNewDs(syncConfig{TargetDB: c.TargetDB, SenderCount: 16})
			kit07.Shared = ds
		}
		report(ds.syncRDBFile(bufio.NewReaderSize(bytes.NewReader(file), 4096), []string{"target:6379"}, "auth", "", int64(len(file)), false))
	})
}

func TestVerif_C07Race(t *testing.T) {
	kit07.RaceMain(t, "sync", func(c kit07.Case, file []byte, report func(error)) {
		ds := syncNewDs(syncConfig{TargetDB: c.TargetDB, SenderCount: 16})
		report(ds.syncRDBFile(bufio.NewReaderSize(bytes.NewReader(file), 4096), []string{"target:6379"}, "auth", "", int64(len(file)), false))
	})
}
