//go:debug asynctimerchan=0

// Shared machinery of the incremental-sync checks (C03, C04): source command alphabet, reference
// fold, and one execution of parser + sender + reply receiver inside a synctest bubble.
// Unexported identifiers used: DbSyncer fields, parseSourceCommand, sendTargetCommand,
// receiveTargetReply, cmdDetail, delayNode.
package dbSync

import (
	"runtime"
	"bufio"
	"fmt"
	"strconv"
	"strings"
	"sync"
	"testing"
	"testing/synctest"
	"time"

	utils "github.com/alibaba/RedisShake/redis-shake/common"
	conf "github.com/alibaba/RedisShake/redis-shake/configure"
	"github.com/alibaba/RedisShake/redis-shake/dbSync/slot"
	"github.com/alibaba/RedisShake/redis-shake/metric"
	"github.com/alibaba/RedisShake/verifrt/hook"
	"github.com/alibaba/RedisShake/verifrt/memconn"
	"github.com/alibaba/RedisShake/verifrt/mredis"
	"github.com/alibaba/RedisShake/verifrt/seqx"
	redigo "github.com/garyburd/redigo/redis"
)

const syncSource = "10.0.0.1:6379"

// source stream symbols
type srcSym struct {
	Name string
	Argv []string // nil: raw keep-alive newline
}

var syncSigma = []srcSym{
	{"SELECT0", []string{"SELECT", "0"}},
	{"SELECT1", []string{"SELECT", "1"}},
	{"select2", []string{"sElEcT", "2"}},
	{"SET", []string{"SET", "pk", "v\r\n1"}},
	{"SETf", []string{"set", "fk", "v2"}},
	{"INCR", []string{"INCR", "pn"}},
	{"RPUSH", []string{"RPUSH", "pl", "x"}},
	{"MSET", []string{"MSET", "pa", "1", "fb", "2"}},
	{"DEL", []string{"DEL", "pk", "fk"}},
	{"PING", []string{"PING"}},
	{"MULTI", []string{"MULTI"}},
	{"EXEC", []string{"EXEC"}},
	{"SENTINEL", []string{"PUBLISH", "__sentinel__:hello", "10.0.0.1,26379,abc"}},
	{"EVAL", []string{"EvAl", "return redis.call('set','pk','lua')", "0"}},
	{"OPINFO", []string{"OPINFO", "x"}},
	{"NEWLINE", nil},
	{"APPEND", []string{"APPEND", "ps", "ab"}},
	// directed streams only (not part of the enumerated alphabet): an argument longer than any
	// abbreviation threshold of a log line
	{"SETLONG", []string{"SET", "plong", strings.Repeat("0123456789abcdef", 40)}},
}

// syncEnumerated: the symbols word enumerations range over
func syncEnumerated() int { return len(syncSigma) - 1 }

func (s srcSym) bytes() []byte {
	if s.Argv == nil {
		return []byte("\n")
	}
	var b strings.Builder
	fmt.Fprintf(&b, "*%d\r\n", len(s.Argv))
	for _, a := range s.Argv {
		fmt.Fprintf(&b, "$%d\r\n%s\r\n", len(a), a)
	}
	return []byte(b.String())
}

// well-formed streams: EXEC only inside MULTI, no nested MULTI, no SELECT inside MULTI
func syncWellFormed(word []int) bool { return syncWellFormedTx(word, false) }

// syncWellFormedTx: with selectInTx a transaction may change the database (the master emits a
// SELECT inside MULTI..EXEC when a transaction or script touches several databases)
func syncWellFormedTx(word []int, selectInTx bool) bool {
	in := false
	for _, w := range word {
		switch syncSigma[w].Name {
		case "MULTI":
			if in {
				return false
			}
			in = true
		case "EXEC":
			if !in {
				return false
			}
			in = false
		case "SELECT0", "SELECT1", "select2":
			if in && !selectInTx {
				return false
			}
		}
	}
	return true
}

type syncConfig struct {
	DBFilter    int    `json:"db_filter"`  // 0 none, 1 whitelist [1], 2 blacklist [1]
	KeyFilter   int    `json:"key_filter"` // 0 none, 1 whitelist [p], 2 blacklist [f]
	Lua         bool   `json:"filter_lua"`
	TargetDB    int    `json:"target_db"`
	Resume      bool   `json:"resume"`
	SenderCount uint   `json:"sender_count"`
	SenderSize  uint64 `json:"sender_size"`
	StartDb     int    `json:"start_db"`
	StartOffset int64  `json:"start_offset"`
	// Pauses adds two environment answers before every segment: 300 ms without traffic (shorter
	// than the sender's 500 ms flush period, to produce trickling streams) and "all remaining
	// segments in one write" (a burst)
	Pauses bool `json:"pauses,omitempty"`
	// AtTick replaces the environment answers by {deliver, tick, deliver the segment at the moment
	// the sender handles its next flush-timer case} (the seam verifTimerCase): a command that
	// arrives between "the timer fired" and "the sender looks at its queue"
	AtTick bool `json:"at_tick,omitempty"`
	// Batched: the target connection keeps the arguments of Send until Flush and serialises them
	// only then, as the tool's cluster connection does (utils.ClusterConn.Send -> Batch.Put).
	// Debug: log.level = debug (the sender builds its debug lines from the commands' arguments)
	Batched bool `json:"batched_connection,omitempty"`
	Debug   bool `json:"log_level_debug,omitempty"`
}

// syncBatchConn models the argument retention of the cluster connection on top of a real redigo
// connection: Send stores the command with its argument values as passed (no copy), Flush hands
// them to the real connection.
type syncBatchConn struct {
	redigo.Conn
	mu      sync.Mutex
	pending []syncPending
}

type syncPending struct {
	cmd  string
	args []interface{}
}

func (b *syncBatchConn) Send(cmd string, args ...interface{}) error {
	b.mu.Lock()
	b.pending = append(b.pending, syncPending{cmd, args})
	b.mu.Unlock()
	return nil
}

func (b *syncBatchConn) Flush() error {
	b.mu.Lock()
	p := b.pending
	b.pending = nil
	b.mu.Unlock()
	for _, x := range p {
		if err := b.Conn.Send(x.cmd, x.args...); err != nil {
			return err
		}
	}
	return b.Conn.Flush()
}

func (c syncConfig) apply() {
	conf.Options.FilterDBWhitelist, conf.Options.FilterDBBlacklist = nil, nil
	switch c.DBFilter {
	case 1:
		conf.Options.FilterDBWhitelist = []string{"1"}
	case 2:
		conf.Options.FilterDBBlacklist = []string{"1"}
	}
	conf.Options.FilterKeyWhitelist, conf.Options.FilterKeyBlacklist = nil, nil
	switch c.KeyFilter {
	case 1:
		conf.Options.FilterKeyWhitelist = []string{"p"}
	case 2:
		conf.Options.FilterKeyBlacklist = []string{"f"}
	}
	conf.Options.FilterLua = c.Lua
	conf.Options.TargetDB = c.TargetDB
	conf.Options.ResumeFromBreakPoint = c.Resume
	conf.Options.SenderCount = c.SenderCount
	conf.Options.SenderSize = c.SenderSize
	conf.Options.SenderDelayChannelSize = 64
	conf.Options.Metric = true
	conf.Options.Id = "verif"
	conf.Options.LogLevel = "info"
	if c.Debug {
		conf.Options.LogLevel = utils.LogLevelDebug
	}
}

type expCmd struct {
	DB   int
	Argv []string
	End  int64 // source offset right after this command
	Idx  int   // index in the stream
}

func (e expCmd) String() string { return fmt.Sprintf("db%d %s", e.DB, strings.Join(e.Argv, " ")) }

// syncFold is the reference: which commands must be applied, where, in which order.
func syncFold(cfg syncConfig, word []int) []expCmd {
	db := cfg.StartDb
	bypass := false
	var out []expCmd
	off := cfg.StartOffset
	passKey := func(k string) bool {
		switch cfg.KeyFilter {
		case 1:
			return strings.HasPrefix(k, "p")
		case 2:
			return !strings.HasPrefix(k, "f")
		}
		return true
	}
	for i, w := range word {
		s := syncSigma[w]
		off += int64(len(s.bytes()))
		if s.Argv == nil {
			continue
		}
		name := strings.ToLower(s.Argv[0])
		args := s.Argv[1:]
		switch name {
		case "select":
			n, _ := strconv.Atoi(args[0])
			db = n
			bypass = (cfg.DBFilter == 1 && n != 1) || (cfg.DBFilter == 2 && n == 1)
			continue
		case "ping", "multi", "exec", "opinfo":
			continue
		case "publish":
			continue // only the sentinel hello is in the alphabet
		case "eval":
			if cfg.Lua {
				continue
			}
		}
		if bypass {
			continue
		}
		// key filter
		var kept []string
		switch name {
		case "mset":
			for j := 0; j+1 < len(args); j += 2 {
				if passKey(args[j]) {
					kept = append(kept, args[j], args[j+1])
				}
			}
			if len(kept) == 0 {
				continue
			}
		case "del":
			for _, k := range args {
				if passKey(k) {
					kept = append(kept, k)
				}
			}
			if len(kept) == 0 {
				continue
			}
		case "eval":
			kept = args
		default:
			if !passKey(args[0]) {
				continue
			}
			kept = args
		}
		tdb := db
		if cfg.TargetDB != -1 {
			tdb = cfg.TargetDB
		}
		out = append(out, expCmd{DB: tdb, Argv: append([]string{name}, kept...), End: off, Idx: i})
	}
	return out
}

// syncResult is what one execution produced.
type syncResult struct {
	Abort    string
	Received []mredis.Cmd
	Applied  []mredis.Cmd
	Snapshot string
	Steps    []string
	srv      *mredis.Server
	// DeliveredAt[i]: fake time at which source segment i was completely delivered; Timeline: the
	// number of non-bookkeeping commands the target had applied at each quiescent point
	DeliveredAt []time.Duration
	Timeline    []syncPoint
}

type syncPoint struct {
	At      time.Duration
	Applied int
}

// the metric object starts goroutines that never end: create it outside of any bubble
func init() { metric.AddMetric(7) }

func syncNewDs(cfg syncConfig) *DbSyncer {
	ds := &DbSyncer{
		id:                         7,
		node:                       &slot.SyncNode{Id: 7, Source: syncSource, Target: []string{"target:6379"}, SlotLeftBoundary: -1, SlotRightBoundary: -1},
		enableResumeFromBreakPoint: cfg.Resume,
		checkpointName:             utils.CheckpointKey,
		WaitFull:                   make(chan struct{}),
		runId:                      "run-1",
		startDbId:                  cfg.StartDb,
		sourceOffset:               cfg.StartOffset,
	}
	close(ds.WaitFull)
	ds.sendBuf = make(chan cmdDetail, conf.Options.SenderCount)
	ds.delayChannel = make(chan *delayNode, conf.Options.SenderDelayChannelSize)
	return ds
}

// syncExecute runs parser, sender and receiver on `stream` (bytes) against srv inside a bubble.
// The chooser decides, before each remaining source segment, whether a 500 ms tick comes first
// or the segment is delivered in two halves.
func syncExecute(t *testing.T, cfg syncConfig, segs [][]byte, srv *mredis.Server, ch *seqx.Chooser) *syncResult {
	return syncExecuteWith(t, cfg, segs, srv, ch, nil)
}

// syncExecuteWith: extra() runs after cfg has been applied (to install other filter lists).
func syncExecuteWith(t *testing.T, cfg syncConfig, segs [][]byte, srv *mredis.Server, ch *seqx.Chooser, extra func()) *syncResult {
	res := &syncResult{srv: srv}
	cfg.apply()
	if extra != nil {
		extra()
	}
	var mu sync.Mutex
	hook.SetExitHook(func(code int) {
		mu.Lock()
		if res.Abort == "" {
			res.Abort = "log.Panic (os.Exit in production)"
		}
		mu.Unlock()
	})
	defer hook.SetExitHook(nil)
	func() {
		defer func() {
			if x := recover(); x != nil {
				// synctest reports goroutines that never finished; that is a harness-visible event
				res.Steps = append(res.Steps, fmt.Sprintf("bubble: %v", x))
			}
		}()
		synctest.Test(t, func(t *testing.T) {
			tc, ts := memconn.Pair("target")
			go srv.Serve(ts)
			var c redigo.Conn = redigo.NewConn(tc, 0, 0)
			if cfg.Batched {
				c = &syncBatchConn{Conn: c}
			}
			sc, ss := memconn.Pair("source")
			ds := syncNewDs(cfg)
			go ds.receiveTargetReply(c)
			go ds.parseSourceCommand(bufio.NewReaderSize(sc, 4096))
			go ds.sendTargetCommand(c)
			synctest.Wait()
			t0 := time.Now()
			nchoices := 3
			if cfg.Pauses {
				nchoices = 5
			}
			// at-tick deliveries: the hook runs on the sender's goroutine
			var tickMu sync.Mutex
			var tickPending []byte
			var tickAt time.Duration
			if cfg.AtTick {
				hook.SetTimerCaseHook(func() {
					tickMu.Lock()
					p := tickPending
					tickPending = nil
					if p != nil {
						tickAt = time.Since(t0)
					}
					tickMu.Unlock()
					if p == nil {
						return
					}
					ss.Write(p)
					// let the parser hand the command to the queue before the sender looks at it
					for k := 0; k < 20000 && len(ds.sendBuf) == 0; k++ {
						runtime.Gosched()
					}
				})
				defer hook.SetTimerCaseHook(nil)
			}
			point := func() {
				n := 0
				for _, a := range srv.Applied() {
					if !syncIsOwn(a) {
						n++
					}
				}
				res.Timeline = append(res.Timeline, syncPoint{At: time.Since(t0), Applied: n})
			}
			for i := 0; i < len(segs); {
				choice := ch.Choose(nchoices)
				if cfg.AtTick && choice == 2 {
					choice = 5
				}
				switch choice {
				case 5:
					tickMu.Lock()
					tickPending = segs[i]
					tickMu.Unlock()
					time.Sleep(500 * time.Millisecond)
					synctest.Wait()
					tickMu.Lock()
					left := tickPending
					tickPending = nil
					at := tickAt
					tickMu.Unlock()
					if left != nil {
						// no timer case ran within a flush period: ordinary delivery
						ss.Write(left)
						at = time.Since(t0)
						res.Steps = append(res.Steps, fmt.Sprintf("tick, deliver %d", i))
					} else {
						res.Steps = append(res.Steps, fmt.Sprintf("deliver %d inside the sender's timer case", i))
					}
					res.DeliveredAt = append(res.DeliveredAt, at)
					i++
				case 0:
					ss.Write(segs[i])
					res.Steps = append(res.Steps, fmt.Sprintf("deliver %d", i))
					res.DeliveredAt = append(res.DeliveredAt, time.Since(t0))
					i++
				case 3:
					time.Sleep(300 * time.Millisecond)
					res.Steps = append(res.Steps, "pause 300ms")
				case 4:
					// a burst: everything that is left arrives in one network read
					var all []byte
					for _, sg := range segs[i:] {
						all = append(all, sg...)
					}
					ss.Write(all)
					res.Steps = append(res.Steps, fmt.Sprintf("deliver %d..%d in one write", i, len(segs)-1))
					for ; i < len(segs); i++ {
						res.DeliveredAt = append(res.DeliveredAt, time.Since(t0))
					}
				case 1:
					time.Sleep(500 * time.Millisecond)
					res.Steps = append(res.Steps, "tick")
				case 2:
					h := len(segs[i]) / 2
					ss.Write(segs[i][:h])
					synctest.Wait()
					ss.Write(segs[i][h:])
					res.Steps = append(res.Steps, fmt.Sprintf("deliver %d in halves", i))
					res.DeliveredAt = append(res.DeliveredAt, time.Since(t0))
					i++
				}
				synctest.Wait()
				point()
			}
			// the stream goes idle: everything must be flushed within bounded time
			for k := 0; k < 11; k++ {
				time.Sleep(100 * time.Millisecond)
				synctest.Wait()
				point()
			}
			res.Received = srv.Received()
			res.Applied = srv.Applied()
			res.Snapshot = srv.Snapshot()
			mu.Lock()
			aborted := res.Abort
			mu.Unlock()
			// tear down: parser first, then sender and receiver
			ss.Cut()
			synctest.Wait()
			close(ds.sendBuf)
			tc.Cut()
			time.Sleep(600 * time.Millisecond)
			synctest.Wait()
			mu.Lock()
			res.Abort = aborted // aborts caused by the tear-down do not count
			mu.Unlock()
		})
	}()
	return res
}

func syncSegs(word []int) [][]byte {
	var segs [][]byte
	for _, w := range word {
		segs = append(segs, syncSigma[w].bytes())
	}
	return segs
}

func syncNames(word []int) []string {
	var s []string
	for _, w := range word {
		s = append(s, syncSigma[w].Name)
	}
	return s
}

// syncIsCheckpointWrite: the tool's own bookkeeping commands on the target.
func syncIsOwn(c mredis.Cmd) bool {
	n := c.Name()
	if n == "select" || n == "ping" {
		return true
	}
	return n == "hset" && len(c.Argv) > 1 && strings.HasPrefix(string(c.Argv[1]), utils.CheckpointKey)
}

func syncShowCmds(cmds []mredis.Cmd) string {
	var s []string
	for _, c := range cmds {
		var a []string
		for _, x := range c.Argv {
			a = append(a, string(x))
		}
		s = append(s, fmt.Sprintf("db%d:%s", c.DB, strings.Join(a, " ")))
	}
	return strings.Join(s, " | ")
}
