// C14 / C20 (restarts of one syncer): whole DbSyncer.Sync() runs against three model source nodes
// and a model target. Phase 1 is a fresh run (full resync, some commands, the sender stores its
// checkpoint). Phase 2 is a process restart on the same target: the source refuses the first k
// PSYNCs, which makes Sync() start again ON THE SAME OBJECT, and for cluster sources the master
// role may have moved between two attempts. Judged: every PSYNC goes to the node that is master
// at that moment and asks for the continuation of that node's checkpoint (or a full resync when
// the target holds none for it); no other checkpoint key appears on the target; discovery ends;
// the syncer's node lists the master as source and the other known nodes as replicas.
package dbSync

import (
	"fmt"
	"net"
	"runtime"
	"sort"
	"strings"
	"sync"
	"testing"
	"testing/synctest"
	"time"

	"github.com/alibaba/RedisShake/pkg/libs/log"
	utils "github.com/alibaba/RedisShake/redis-shake/common"
	conf "github.com/alibaba/RedisShake/redis-shake/configure"
	"github.com/alibaba/RedisShake/redis-shake/dbSync/slot"
	"github.com/alibaba/RedisShake/verifrt/crcref"
	"github.com/alibaba/RedisShake/verifrt/ev"
	"github.com/alibaba/RedisShake/verifrt/hook"
	"github.com/alibaba/RedisShake/verifrt/memconn"
	"github.com/alibaba/RedisShake/verifrt/mredis"
	"github.com/alibaba/RedisShake/verifrt/msource"
	"golang.org/x/sync/semaphore"
)

type rsCase struct {
	Sub        string   `json:"sub"`
	SourceType string   `json:"source_type"`
	Left       int      `json:"slot_left"`
	Right      int      `json:"slot_right"`
	Refuse     int      `json:"refused_psyncs"`
	Masters    []string `json:"master_per_attempt"` // phase 2, attempt i: "A", "B" or "C"
	// Single: the shard is known with one node only (no replica was listed at start-up); Masters[i]
	// "none": at that attempt no node reports the master role
	Single bool `json:"single_known_node,omitempty"`
}

var rsNodes = []string{"srcA:6379", "srcB:6379", "srcC:6379"}

const rsBase = 1000

type rsPsync struct {
	Node   string
	RunID  string
	Offset int64
	Master string // node that was master when the PSYNC arrived
}

type rsPhase struct {
	abort  bool
	psyncs []rsPsync
	node   slot.SyncNode
	hang   bool
}

func rsAddr(letter string) string { return "src" + letter + ":6379" }

// rsRun runs one Sync() (with its restarts) until things are quiet.
func rsRun(t *testing.T, c rsCase, tgt *mredis.Server, phase int, stream1, stream2 []byte) (out rsPhase) {
	rdbFile := c04eRDB()
	var mu sync.Mutex
	hook.SetExitHook(func(int) {
		mu.Lock()
		out.abort = true
		mu.Unlock()
	})
	defer hook.SetExitHook(nil)
	defer hook.SetDialHook(nil)
	func() {
		defer func() { recover() }()
		synctest.Test(t, func(t *testing.T) {
			ms := map[string]*msource.Master{}
			attempt := 0
			masterOf := func(i int) string {
				if phase == 1 || len(c.Masters) == 0 {
					return rsAddr("A")
				}
				if i >= len(c.Masters) {
					i = len(c.Masters) - 1
				}
				return rsAddr(c.Masters[i])
			}
			setRoles := func() {
				for _, n := range rsNodes {
					ms[n].Role = "slave"
				}
				if m := ms[masterOf(attempt)]; m != nil {
					m.Role = "master"
				}
			}
			refused := 0
			type accepted struct {
				node string
				conn int
				cont bool
				off  int64
			}
			var acc []accepted
			for _, n := range rsNodes {
				n := n
				m := msource.New()
				ms[n] = m
				m.PsyncReply = func(p msource.Psync) string {
					mu.Lock()
					defer mu.Unlock()
					out.psyncs = append(out.psyncs, rsPsync{Node: n, RunID: p.RunID, Offset: p.Offset, Master: masterOf(attempt)})
					if phase == 2 && refused < c.Refuse {
						refused++
						attempt++
						setRoles()
						return "-NOMASTERLINK Can't SYNC while not connected with my master"
					}
					if p.RunID == "run-"+n {
						acc = append(acc, accepted{n, p.Conn, true, p.Offset})
						return "+CONTINUE"
					}
					acc = append(acc, accepted{n, p.Conn, false, 0})
					return fmt.Sprintf("+FULLRESYNC run-%s %d", n, rsBase)
				}
			}
			setRoles()
			tearing := false
			var opened []*memconn.Conn
			hook.SetDialHook(func(network, addr string) (net.Conn, error, bool) {
				if tearing {
					runtime.Goexit()
				}
				cc, sc := memconn.Pair(addr)
				opened = append(opened, sc)
				if m := ms[addr]; m != nil {
					go m.Serve(sc)
				} else {
					go tgt.Serve(sc)
				}
				return cc, nil, true
			})
			node := &slot.SyncNode{Id: 7, Source: rsNodes[0], Slaves: []string{rsNodes[1], rsNodes[2]}, Target: []string{"tgt:6379"}, SlotLeftBoundary: c.Left, SlotRightBoundary: c.Right}
			if c.Single {
				node.Slaves = nil
			}
			ds := NewDbSyncer(node, 9320, semaphore.NewWeighted(1))
			go ds.Sync()
			served := 0
			quiet := 0
			for step := 0; step < 60 && quiet < 4; step++ {
				synctest.Wait()
				mu.Lock()
				ab := out.abort
				todo := append([]accepted{}, acc[served:]...)
				served = len(acc)
				mu.Unlock()
				if ab {
					break
				}
				for _, a := range todo {
					conn := ms[a.node].Conn(a.conn)
					if a.cont {
						from := a.off - 1 - rsBase
						all := append(append([]byte{}, stream1...), stream2...)
						if from >= 0 && from <= int64(len(all)) {
							conn.Write(all[from:])
						}
					} else {
						conn.Write([]byte(fmt.Sprintf("\n$%d\r\n", len(rdbFile))))
						conn.Write(rdbFile)
						conn.Write(stream1)
						if phase == 2 {
							conn.Write(stream2)
						}
					}
				}
				if served > 0 && len(todo) == 0 {
					quiet++
				}
				time.Sleep(time.Second)
			}
			synctest.Wait()
			mu.Lock()
			aborted := out.abort
			out.hang = served == 0 && !aborted
			mu.Unlock()
			out.node = *ds.node
			tearing = true
			for _, sc := range opened {
				sc.Cut()
			}
			time.Sleep(2 * time.Second)
			synctest.Wait()
			time.Sleep(31 * time.Second)
			synctest.Wait()
			mu.Lock()
			out.abort = aborted
			mu.Unlock()
		})
	}()
	return
}

func rsCheckpointKeys(tgt *mredis.Server) []string {
	var out []string
	for db := 0; db < 16; db++ {
		for _, k := range tgt.Keys(db) {
			if strings.HasPrefix(k, utils.CheckpointKey) {
				out = append(out, fmt.Sprintf("db%d/%s", db, k))
			}
		}
	}
	sort.Strings(out)
	return out
}

func rsOne(t *testing.T, c rsCase) (kind, what string) {
	defer ev.Watch(fmt.Sprintf("restart scenario %+v", c), 150*time.Second, c)()
	syncConfig{TargetDB: -1, Resume: true, SenderCount: 16, SenderSize: 1 << 20}.apply()
	conf.Options.SourceType, conf.Options.TargetType = c.SourceType, "standalone"
	conf.Options.SourceAddressList, conf.Options.TargetAddressList = []string{rsNodes[0]}, []string{"tgt:6379"}
	conf.Options.SourcePasswordRaw, conf.Options.TargetPasswordRaw = "", ""
	conf.Options.SourceAuthType, conf.Options.TargetAuthType = "auth", "auth"
	conf.Options.Type = conf.TypeSync
	conf.Options.Parallel = 1
	conf.Options.Psync = true
	conf.Options.KeyExists = "rewrite"
	conf.Options.TargetReplace = true
	conf.Options.BigKeyThreshold = 1 << 30
	conf.Options.TargetVersion = ""
	defer func() { conf.Options.SourceType = "standalone" }()
	var stream1, stream2 []byte
	for _, a := range [][]string{{"SELECT", "0"}, {"SET", "k1", "v1"}, {"INCR", "n"}} {
		stream1 = append(stream1, srcSym{Argv: a}.bytes()...)
	}
	stream2 = srcSym{Argv: []string{"INCR", "n"}}.bytes()
	tgt := mredis.New(mredis.Options{Registry: c04eReg})
	p1 := rsRun(t, c, tgt, 1, stream1, stream2)
	switch {
	case p1.abort:
		return "abort", "the fresh run aborts"
	case len(p1.psyncs) != 1 || (p1.psyncs[0].RunID != "?" && p1.psyncs[0].RunID != "") || p1.psyncs[0].Offset != -1 || p1.psyncs[0].Node != rsNodes[0]:
		return "first-psync", fmt.Sprintf("a fresh start must ask its source for a full resync once, got %+v", p1.psyncs)
	}
	keys1 := rsCheckpointKeys(tgt)
	if len(keys1) != 1 {
		return "checkpoint-keys", fmt.Sprintf("after the fresh run the target holds the checkpoint keys %v, expected exactly one", keys1)
	}
	if c.SourceType == conf.RedisTypeCluster {
		// the key a cluster shard's checkpoint is stored under hashes into that shard's slot range
		// (it has to live on the target node that owns the shard)
		name := keys1[0][strings.Index(keys1[0], "/")+1:]
		if sl := crcref.Slot([]byte(name)); sl < c.Left || sl > c.Right {
			return "checkpoint-key-outside-shard", fmt.Sprintf("the checkpoint of the shard [%d,%d] is stored under %q, which hashes to slot %d", c.Left, c.Right, name, sl)
		}
	}
	end1 := int64(rsBase + len(stream1))
	p2 := rsRun(t, c, tgt, 2, stream1, stream2)
	desc := func() string { return fmt.Sprintf("PSYNCs of the restarted process: %+v", p2.psyncs) }
	if len(c.Masters) > 0 && c.Masters[0] == "none" {
		// no node reports the master role: bounded retries, then an error; never a sync from a replica
		if len(p2.psyncs) > 0 {
			return "psync-to-non-master", fmt.Sprintf("no known node reports role:master and the tool sends PSYNC to %s", p2.psyncs[0].Node)
		}
		if !p2.abort {
			return "no-error-without-master", "no known node reports role:master and the restarted process neither syncs nor reports an error within 60 s"
		}
		return "", ""
	}
	if p2.abort {
		return "abort", fmt.Sprintf("the restarted process aborts although a master exists at every moment (%s)", desc())
	}
	if p2.hang {
		return "no-psync", "the restarted process never got a PSYNC accepted within 60 s; " + desc()
	}
	if len(p2.psyncs) != c.Refuse+1 {
		return "psync-count", fmt.Sprintf("%d PSYNCs refused, then one accepted: expected %d PSYNCs; %s", c.Refuse, c.Refuse+1, desc())
	}
	for i, p := range p2.psyncs {
		if p.Node != p.Master {
			return "psync-to-non-master", fmt.Sprintf("PSYNC %d went to %s while %s was the master; %s", i, p.Node, p.Master, desc())
		}
		if p.Node == rsNodes[0] {
			// the target holds this node's checkpoint (run id run-srcA, offset end1)
			if p.RunID != "run-"+rsNodes[0] || p.Offset != end1+1 {
				return "resume-position", fmt.Sprintf("PSYNC %d to %s asks for (%s, %d); the target holds its checkpoint (run-%s, %d): expected (run-%s, %d); %s", i, p.Node, p.RunID, p.Offset, rsNodes[0], end1, rsNodes[0], end1+1, desc())
			}
		} else if (p.RunID != "?" && p.RunID != "") || p.Offset != -1 {
			return "resume-position", fmt.Sprintf("PSYNC %d to %s asks for (%s, %d) although the target holds no checkpoint of that node; %s", i, p.Node, p.RunID, p.Offset, desc())
		}
	}
	last := p2.psyncs[len(p2.psyncs)-1]
	// the syncer's node: the accepted master as source, the two others as replicas
	if c.SourceType == conf.RedisTypeCluster {
		var others []string
		for _, n := range rsNodes {
			if n != last.Node {
				others = append(others, n)
			}
		}
		if c.Single {
			others = nil // the tool knows no other node of this shard
		}
		got := append([]string{}, p2.node.Slaves...)
		sort.Strings(got)
		if p2.node.Source != last.Node || fmt.Sprint(got) != fmt.Sprint(others) {
			return "node-list", fmt.Sprintf("after discovery the syncer's node is source=%s replicas=%v, expected source=%s replicas=%v; %s", p2.node.Source, p2.node.Slaves, last.Node, others, desc())
		}
	}
	keys2 := rsCheckpointKeys(tgt)
	if fmt.Sprint(keys2) != fmt.Sprint(keys1) {
		return "checkpoint-keys", fmt.Sprintf("the fresh run stored its checkpoint under %v; after the restarted process the target holds %v", keys1, keys2)
	}
	if last.Node == rsNodes[0] {
		// continued: the final offset stored for this source is the end of the stream
		db, key := 0, ""
		fmt.Sscanf(keys2[0], "db%d/%s", &db, &key)
		if e := tgt.Lookup(db, key); e != nil {
			want := fmt.Sprint(end1 + int64(len(stream2)))
			if got := string(e.Hash[rsNodes[0]+"-offset"]); got != want {
				return "final-offset", fmt.Sprintf("after the continuation the stored offset of %s is %q, expected %s", rsNodes[0], got, want)
			}
		}
		if e := tgt.Lookup(0, "n"); e == nil || string(e.Str) != "2" {
			got := "absent"
			if e != nil {
				got = string(e.Str)
			}
			return "dataset", fmt.Sprintf("counter n incremented once before and once after the restart is %s on the target, expected 2", got)
		}
	}
	return "", ""
}

func rsCases() []rsCase {
	var out []rsCase
	for _, refuse := range []int{0, 1, 2} {
		out = append(out, rsCase{Sub: "restart", SourceType: "standalone", Left: -1, Right: -1, Refuse: refuse})
		for _, rng := range [][2]int{{0, 5460}, {5461, 10922}, {12, 345}, {7, 7}, {16383, 16383}, {100, 101}} {
			out = append(out, rsCase{Sub: "restart", SourceType: conf.RedisTypeCluster, Left: rng[0], Right: rng[1], Refuse: refuse})
		}
	}
	return out
}

func rsFailoverCases() []rsCase {
	var out []rsCase
	letters := []string{"A", "B", "C"}
	// one attempt: the master has moved before the restart
	for _, a := range letters {
		out = append(out, rsCase{Sub: "failover", SourceType: conf.RedisTypeCluster, Left: 0, Right: 5460, Refuse: 0, Masters: []string{a}})
	}
	// nobody is master (full node list, and a shard known with a single node)
	out = append(out, rsCase{Sub: "failover", SourceType: conf.RedisTypeCluster, Left: 0, Right: 5460, Masters: []string{"none"}},
		rsCase{Sub: "failover", SourceType: conf.RedisTypeCluster, Left: 0, Right: 5460, Masters: []string{"none"}, Single: true},
		rsCase{Sub: "failover", SourceType: conf.RedisTypeCluster, Left: 0, Right: 5460, Masters: []string{"A"}, Single: true})
	// two and three attempts: every sequence of masters
	for _, a := range letters {
		for _, b := range letters {
			out = append(out, rsCase{Sub: "failover", SourceType: conf.RedisTypeCluster, Left: 0, Right: 5460, Refuse: 1, Masters: []string{a, b}})
			for _, cc := range letters {
				out = append(out, rsCase{Sub: "failover", SourceType: conf.RedisTypeCluster, Left: 0, Right: 5460, Refuse: 2, Masters: []string{a, b, cc}})
			}
		}
	}
	return out
}

func rsTest(t *testing.T, prop string, cases []rsCase) {
	defer ev.Flush(prop)
	log.SetLevel(log.LEVEL_NONE)
	if ev.ReplayFile() != "" {
		var c rsCase
		if err := ev.LoadReplay(&c); err != nil {
			t.Fatal(err)
		}
		if c.SourceType == "" {
			return
		}
		k, w := rsOne(t, c)
		t.Logf("replay %+v -> %s %s", c, k, w)
		if k != "" {
			ev.Violate(prop+"|"+c.Sub+"|"+k, w, c)
		}
		return
	}
	var n int64
	for i, c := range cases {
		if !ev.Mine(int64(i)) {
			continue
		}
		if ev.OverBudget() {
			ev.Cap("time budget")
			break
		}
		k, w := rsOne(t, c)
		n++
		if k != "" {
			ev.Violate(prop+"|"+c.Sub+"|"+k, fmt.Sprintf("%s (%+v)", w, c), c)
		}
		ev.Outcome(c.Sub + ":" + k)
		h := ev.HashS(fmt.Sprintf("%+v", c))
		ev.State(h)
		ev.Nontrivial(h)
		if i%8 == 0 {
			ev.Sample(c.Sub, c)
		}
	}
	ev.Eval(n)
	ev.Trace(n)
	ev.Trans(n * 2)
	ev.Count("restart_scenarios", n)
}

// TestVerif_C14R: the restarted process (and every restart of the same syncer object) resumes
// from the checkpoint the fresh run stored.
func TestVerif_C14R(t *testing.T) { rsTest(t, "C14", rsCases()) }

// TestVerif_C20R: the master role moves between the attempts of one syncer.
func TestVerif_C20R(t *testing.T) { rsTest(t, "C20", rsFailoverCases()) }
