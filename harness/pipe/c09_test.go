// C09: the pipe is a lossless, deadlock-free FIFO byte stream with exact close rules.
// Package pipe. Unexported identifiers used: reader.p / writer.p (*pipe), pipe.{store,rerr,werr,
// rwait,wwait}, buffer.{buffered,available} (state inspection only).
package pipe

import (
	"bytes"
	"fmt"
	"io"
	"io/ioutil"
	"os"
	"strings"
	"testing"
	"time"

	"github.com/alibaba/RedisShake/pkg/libs/errors"
	"github.com/alibaba/RedisShake/verifrt/ev"
	"github.com/alibaba/RedisShake/verifrt/lockx"
	"github.com/alibaba/RedisShake/verifrt/seqx"
	"github.com/alibaba/RedisShake/verifrt/vsync"
)

var errCustomW = fmt.Errorf("writer's own error")
var errCustomR = fmt.Errorf("reader's own error")

func c09Byte(i int) byte { return byte(i%251 + 1) }

// op codes: "W<k>" "R<k>" "B" (Buffered) "A" (Available) "wc" "wce" "rc" "rce" "R*" (read until error, at most 8 reads of <k>)
type c09Event struct {
	Thread int
	Op     string
	N      int
	Err    string // "", "eof", "closed", "custom-w", "custom-r", or other text
	Data   []byte
	Start  int
	End    int
}

func c09ErrClass(err error) (cls string) {
	if err == nil {
		return ""
	}
	defer func() {
		if x := recover(); x != nil {
			cls = fmt.Sprintf("other:unusable error value %#v (inspecting it panics: %v)", err, x)
		}
	}()
	switch errors.Cause(err) {
	case io.EOF:
		return "eof"
	case io.ErrClosedPipe:
		return "closed"
	case errCustomW:
		return "custom-w"
	case errCustomR:
		return "custom-r"
	}
	return "other:" + err.Error()
}

// close operations and the error the OTHER side must see afterwards (once it has nothing left to
// drain): plain close, a custom error, and the two error values the pipe itself gives a meaning to
var c09CloseErr = map[string]string{"wc": "eof", "wce": "custom-w", "wcp": "closed", "rc": "closed", "rce": "custom-r", "rco": "eof"}

func c09IsWClose(op string) bool { return op == "wc" || op == "wce" || op == "wcp" }
func c09IsRClose(op string) bool { return op == "rc" || op == "rce" || op == "rco" }

type c09Scenario struct {
	Name    string     `json:"name"`
	Cap     int        `json:"cap"`
	File    bool       `json:"file"`
	Threads [][]string `json:"threads"` // thread 0 is the writer, 1 the reader, 2+ closers
}

type c09Run struct {
	sc     c09Scenario
	r      Reader
	w      Writer
	p      *pipe
	seq    int
	events []c09Event
	wpos   int // bytes offered so far by the writer (position coding)
	tmp    *os.File
}

func c09New(sc c09Scenario) *c09Run {
	run := &c09Run{sc: sc}
	if sc.File {
		f, err := ioutil.TempFile(os.Getenv("VERIF_SCRATCH"), "c09pipe")
		if err != nil {
			panic(err)
		}
		run.tmp = f
		run.r, run.w = NewFilePipe(sc.Cap, f)
	} else {
		run.r, run.w = NewSize(sc.Cap)
	}
	run.p = run.r.(*reader).p
	return run
}

func (run *c09Run) cleanup() {
	if run.tmp != nil {
		run.tmp.Close()
		os.Remove(run.tmp.Name())
	}
}

func atoi(s string) int {
	n := 0
	for _, c := range s {
		n = n*10 + int(c-'0')
	}
	return n
}

// do executes one op on behalf of a thread and logs it.
func (run *c09Run) do(thread int, op string) {
	e := c09Event{Thread: thread, Op: op}
	run.seq++
	e.Start = run.seq
	finish := func() {
		run.seq++
		e.End = run.seq
		run.events = append(run.events, e)
	}
	switch {
	case op[0] == 'W':
		k := atoi(op[1:])
		b := make([]byte, k)
		for i := range b {
			b[i] = c09Byte(run.wpos + i)
		}
		n, err := run.w.Write(b)
		run.wpos += n // only accepted bytes advance the stream; a retry would resend the rest
		e.N, e.Err = n, c09ErrClass(err)
		finish()
	case strings.HasPrefix(op, "R*"):
		k := atoi(op[2:])
		for i := 0; i < 8; i++ {
			ev2 := c09Event{Thread: thread, Op: fmt.Sprintf("R%d", k)}
			run.seq++
			ev2.Start = run.seq
			b := make([]byte, k)
			n, err := run.r.Read(b)
			ev2.N, ev2.Err, ev2.Data = n, c09ErrClass(err), b[:n]
			run.seq++
			ev2.End = run.seq
			run.events = append(run.events, ev2)
			if err != nil {
				return
			}
		}
	case op[0] == 'R':
		k := atoi(op[1:])
		b := make([]byte, k)
		n, err := run.r.Read(b)
		e.N, e.Err, e.Data = n, c09ErrClass(err), b[:n]
		finish()
	case op == "B":
		n, err := run.r.Buffered()
		e.N, e.Err = n, c09ErrClass(err)
		finish()
	case op == "A":
		n, err := run.w.Available()
		e.N, e.Err = n, c09ErrClass(err)
		finish()
	case op == "wc":
		e.Err = c09ErrClass(run.w.Close())
		finish()
	case op == "wce":
		e.Err = c09ErrClass(run.w.CloseWithError(errCustomW))
		finish()
	case op == "rc":
		e.Err = c09ErrClass(run.r.Close())
		finish()
	case op == "rce":
		e.Err = c09ErrClass(run.r.CloseWithError(errCustomR))
		finish()
	case op == "X":
		// environment fault: the file under a file-backed pipe stops working (its handle is closed
		// under the pipe: every later file read or write fails with an I/O error)
		if run.tmp != nil {
			run.tmp.Close()
		}
		finish()
	case op == "wcp":
		e.Err = c09ErrClass(run.w.CloseWithError(io.ErrClosedPipe))
		finish()
	case op == "rco":
		e.Err = c09ErrClass(run.r.CloseWithError(io.EOF))
		finish()
	default:
		panic("bad op " + op)
	}
}

// judge applies the order-independent rules of the statement to the event log.
func (run *c09Run) judge(complete bool) (kind, what string) {
	capn := align(run.sc.Cap, BuffSizeAlign)
	if run.sc.File {
		capn = align(run.sc.Cap, FileSizeAlign)
	}
	// streams
	var written, read []byte
	wp := 0
	var rClosed, wClosed *c09Event
	for i := range run.events {
		e := &run.events[i]
		switch {
		case e.Op[0] == 'W':
			k := atoi(e.Op[1:])
			if e.N < 0 || e.N > k {
				return "write-count", fmt.Sprintf("Write(%d) returned n=%d", k, e.N)
			}
			if e.Err == "" && e.N != k {
				return "short-write", fmt.Sprintf("Write(%d) returned n=%d without error", k, e.N)
			}
			for j := 0; j < e.N; j++ {
				written = append(written, c09Byte(wp+j))
			}
			wp += e.N
		case e.Op[0] == 'R' && e.Op != "R*":
			k := atoi(e.Op[1:])
			if e.N < 0 || e.N > k {
				return "read-count", fmt.Sprintf("Read(%d) returned n=%d", k, e.N)
			}
			if k > 0 && e.N == 0 && e.Err == "" {
				return "empty-read", fmt.Sprintf("Read(%d) returned 0, nil", k)
			}
			read = append(read, e.Data...)
		case c09IsRClose(e.Op):
			if rClosed == nil {
				rClosed = e
			}
		case c09IsWClose(e.Op):
			if wClosed == nil {
				wClosed = e
			}
		}
	}
	if len(read) > len(written) || !bytes.Equal(read, written[:len(read)]) {
		i := 0
		for i < len(read) && i < len(written) && read[i] == written[i] {
			i++
		}
		return "fifo", fmt.Sprintf("the reader's byte %d is not the byte written at that position (read %d bytes, %d accepted)", i, len(read), len(written))
	}
	rerr := "closed"
	if rClosed != nil {
		rerr = c09CloseErr[rClosed.Op]
	}
	werr := "eof"
	if wClosed != nil {
		werr = c09CloseErr[wClosed.Op]
	}
	faultStart := 0
	for i := range run.events {
		if run.events[i].Op == "X" && faultStart == 0 {
			faultStart = run.events[i].Start
		}
	}
	for i := range run.events {
		e := &run.events[i]
		afterR := rClosed != nil && e.Start > rClosed.End
		afterW := wClosed != nil && e.Start > wClosed.End
		if faultStart != 0 && e.End > faultStart && strings.HasPrefix(e.Err, "other:") && (e.Op[0] == 'W' || e.Op[0] == 'R') {
			// after the file fault a read or write may fail with the I/O error (it must come back,
			// and never with wrong bytes: the stream rules above still hold)
			continue
		}
		switch {
		case e.Op[0] == 'W':
			k := atoi(e.Op[1:])
			if afterW && (e.Err != "closed" || e.N != 0) {
				return "write-after-wclose", fmt.Sprintf("Write(%d) after the writer closed returned n=%d err=%q", k, e.N, e.Err)
			}
			if afterR && !afterW && (e.Err != rerr || e.N != 0) {
				return "write-after-rclose", fmt.Sprintf("Write(%d) after the reader closed returned n=%d err=%q, expected the reader's error %q", k, e.N, e.Err, rerr)
			}
			if e.Err != "" && e.Err != "closed" && e.Err != rerr {
				return "write-error", fmt.Sprintf("Write(%d) failed with %q", k, e.Err)
			}
			if e.Err != "" && rClosed == nil && wClosed == nil {
				return "write-error", fmt.Sprintf("Write(%d) failed with %q although nobody closed", k, e.Err)
			}
		case e.Op[0] == 'R':
			k := atoi(e.Op[1:])
			if afterR && (e.Err != "closed" || e.N != 0) {
				return "read-after-rclose", fmt.Sprintf("Read(%d) after the reader closed returned n=%d err=%q", k, e.N, e.Err)
			}
			if e.Err != "" && e.Err != "closed" && e.Err != werr {
				return "read-error", fmt.Sprintf("Read(%d) failed with %q, writer's error is %q", k, e.Err, werr)
			}
			if e.Err == werr && !afterR {
				if wClosed == nil {
					return "read-error", fmt.Sprintf("Read(%d) returned the writer's error but the writer never closed", k)
				}
				// everything accepted before the close must have been drained first
				got := 0
				for j := 0; j <= i; j++ {
					if x := &run.events[j]; x.Op[0] == 'R' {
						got += x.N
					}
				}
				acc := 0
				for j := range run.events {
					if x := &run.events[j]; x.Op[0] == 'W' && x.Start < e.End {
						acc += x.N
					}
				}
				if got < acc && complete {
					// bytes accepted before this read ended are still unread
					return "eof-before-drain", fmt.Sprintf("Read(%d) returned the writer's error with %d accepted bytes still unread", k, acc-got)
				}
			}
		case e.Op == "B":
			if afterR && e.Err != rerr {
				return "buffered-after-rclose", fmt.Sprintf("Buffered after the reader closed: n=%d err=%q", e.N, e.Err)
			}
			if e.Err == "" && (e.N < 0 || e.N > capn) {
				return "buffered-range", fmt.Sprintf("Buffered()=%d with capacity %d", e.N, capn)
			}
		case e.Op == "A":
			if afterW && e.Err != werr {
				return "available-after-wclose", fmt.Sprintf("Available after the writer closed: n=%d err=%q", e.N, e.Err)
			}
			if e.Err == "" && (e.N < 0 || e.N > capn) {
				return "available-range", fmt.Sprintf("Available()=%d with capacity %d", e.N, capn)
			}
		}
	}
	return "", ""
}

func (run *c09Run) describe() string {
	var s []string
	for _, e := range run.events {
		x := fmt.Sprintf("t%d:%s->%d", e.Thread, e.Op, e.N)
		if e.Err != "" {
			x += "," + e.Err
		}
		s = append(s, x)
	}
	return strings.Join(s, " ")
}

type c09Replay struct {
	Sub      string      `json:"sub"`
	Scenario c09Scenario `json:"scenario"`
	Trail    []int       `json:"trail"`
	Word     []string    `json:"word"`
}

// c09Exec runs one schedule of a concurrent scenario.
func c09Exec(sc c09Scenario, ch *seqx.Chooser) (string, *lockx.Exec, *c09Run) {
	run := c09New(sc)
	defer run.cleanup()
	var waitBad string
	setup := func(s *lockx.Sched) {
		s.OnWait = func(c *vsync.Cond, thread int) {
			p := run.p
			switch c {
			case p.rwait:
				if p.store.buffered() != 0 || p.werr != nil || p.rerr != nil {
					waitBad = fmt.Sprintf("reader blocks with %d bytes buffered, writer closed=%v, reader closed=%v", p.store.buffered(), p.werr != nil, p.rerr != nil)
				}
			case p.wwait:
				if p.store.available() != 0 || p.werr != nil || p.rerr != nil {
					waitBad = fmt.Sprintf("writer blocks with %d bytes of space, writer closed=%v, reader closed=%v", p.store.available(), p.werr != nil, p.rerr != nil)
				}
			}
		}
	}
	// lost wake-up detector: whenever nobody is inside the pipe's critical section, a thread
	// still parked (and not yet signalled) on a condition must really have to wait
	prev := setup
	setup = func(s *lockx.Sched) {
		prev(s)
		s.OnStep = func() {
			p := run.p
			if p.mu.Owner != 0 || waitBad != "" {
				return
			}
			closed := p.werr != nil || p.rerr != nil
			if len(p.wwait.Waiters) > 0 && (p.store.available() != 0 || closed) {
				waitBad = fmt.Sprintf("writer stays blocked (no wake-up pending) although %d bytes of space are free, writer closed=%v, reader closed=%v", p.store.available(), p.werr != nil, p.rerr != nil)
			}
			if len(p.rwait.Waiters) > 0 && (p.store.buffered() != 0 || closed) {
				waitBad = fmt.Sprintf("reader stays blocked (no wake-up pending) although %d bytes are buffered, writer closed=%v, reader closed=%v", p.store.buffered(), p.werr != nil, p.rerr != nil)
			}
		}
	}
	var bodies []func()
	for ti, ops := range sc.Threads {
		ti, ops := ti, ops
		bodies = append(bodies, func() {
			for _, op := range ops {
				run.do(ti, op)
			}
		})
	}
	ex := lockx.Run(ch, 4000, setup, bodies)
	switch {
	case len(ex.Panics) > 0:
		return "panic|" + ex.Panics[0], ex, run
	case waitBad != "":
		return "blocks-without-need|" + waitBad, ex, run
	case ex.Deadlock:
		return "deadlock|" + strings.Join(ex.Blocked, ", ") + " and nobody can wake them", ex, run
	case ex.Livelock:
		return "livelock|no termination within 4000 scheduling steps", ex, run
	}
	if k, w := run.judge(true); k != "" {
		return k + "|" + w, ex, run
	}
	return "", ex, run
}

func c09Scenarios(capn int, file bool) []c09Scenario {
	c := func(d int) string { return fmt.Sprint(capn + d) }
	mk := func(name string, th ...[]string) c09Scenario {
		return c09Scenario{Name: name, Cap: capn, File: file, Threads: th}
	}
	return []c09Scenario{
		mk("w(cap+1),close | read-until-eof(cap)", []string{"W" + c(1), "wc"}, []string{"R*" + c(0)}),
		mk("w1,w(cap),close | r1,read-until-eof(cap-1)", []string{"W1", "W" + c(0), "wc"}, []string{"R1", "R*" + c(-1)}),
		mk("w(cap),w1 | r(cap),rclose", []string{"W" + c(0), "W1"}, []string{"R" + c(0), "rc"}),
		mk("w(2cap+1) | r(cap),rclose-with-error", []string{"W" + fmt.Sprint(2*capn+1)}, []string{"R" + c(0), "rce"}),
		mk("close-with-error | r10,r10", []string{"wce"}, []string{"R10", "R10"}),
		mk("w3,close-with-ErrClosedPipe | r2,r2,r2", []string{"W3", "wcp"}, []string{"R2", "R2", "R2"}),
		mk("w(cap+1) | r1,rclose-with-EOF", []string{"W" + c(1)}, []string{"R1", "rco"}),
		mk("w(cap+1) | read-until-eof | closer: wclose", []string{"W" + c(1)}, []string{"R*" + c(0)}, []string{"wc"}),
		mk("w0,w1,close | r0,r1,r0,r1", []string{"W0", "W1", "wc"}, []string{"R0", "R1", "R0", "R1"}),
		mk("w3,available,w(cap-3),w1 | buffered,r5,buffered,read-until-eof | closer: wclose", []string{"W3", "A", "W" + c(-3), "W1"}, []string{"B", "R5", "B", "R*" + c(0)}, []string{"wc"}),
		mk("w1,w1,w1 | rclose,r1,buffered", []string{"W1", "W1", "W1"}, []string{"rc", "R1", "B"}),
		mk("w(cap-1),w2,w(cap),close | r(cap-2) x3, read-until-eof(7)", []string{"W" + c(-1), "W2", "W" + c(0), "wc"}, []string{"R" + c(-2), "R" + c(-2), "R" + c(-2), "R*7"}),
		mk("w(cap+1) | r1 | closer: rclose", []string{"W" + c(1)}, []string{"R1"}, []string{"rc"}),
		mk("w(cap),close,w1,available | read-until-eof(cap+1)", []string{"W" + c(0), "wc", "W1", "A"}, []string{"R*" + c(1)}),
		mk("w(cap+1) | r1 (writer must finish)", []string{"W" + c(1)}, []string{"R1"}),
		mk("w(cap),w(cap) | r1,r(cap-1),r1 (writer must finish)", []string{"W" + c(0), "W" + c(0)}, []string{"R1", "R" + c(-1), "R1", "R" + c(-1)}),
		mk("w1,w1,close | read-until-eof(cap) (reader must finish)", []string{"W1", "W1", "wc"}, []string{"R*" + c(0)}),
		mk("w(cap-1),w3 | r2,r(cap) (wrap)", []string{"W" + c(-1), "W3"}, []string{"R2", "R" + c(0), "R" + c(0)}),
	}
}

// c09FaultScenarios: the file under a file-backed pipe fails (op X); every call still comes back.
func c09FaultScenarios(capn int) []c09Scenario {
	mk := func(name string, th ...[]string) c09Scenario {
		return c09Scenario{Name: name, Cap: capn, File: true, Threads: th}
	}
	return []c09Scenario{
		mk("w2,file fails,w1,close | r1", []string{"W2", "X", "W1", "wc"}, []string{"R1"}),
		mk("file fails,w3,w1,close | r2,rclose", []string{"X", "W3", "W1", "wc"}, []string{"R2", "rc"}),
		mk("w1,w1,close | r1 | environment: file fails", []string{"W1", "W1", "wc"}, []string{"R1"}, []string{"X"}),
	}
}

func TestVerif_C09(t *testing.T) {
	defer ev.Flush("C09")
	if ev.ReplayFile() != "" {
		var rp c09Replay
		if err := ev.LoadReplay(&rp); err != nil {
			t.Fatal(err)
		}
		if rp.Sub == "seq" {
			t.Logf("replay word %v -> %s", rp.Word, c09SeqWord(rp.Scenario.Cap, rp.Scenario.File, rp.Word))
			return
		}
		for i := 0; i < 2; i++ {
			v, ex, run := c09Exec(rp.Scenario, seqx.NewReplay(rp.Trail))
			t.Logf("replay schedule %s: %s -> %q", ex.Describe(), run.describe(), v)
			if v != "" {
				ev.Violate("C09|"+strings.SplitN(v, "|", 2)[0]+"|"+rp.Scenario.Name, v, rp)
			}
		}
		return
	}
	bound := 3
	if ev.Thorough() {
		bound = 5
	}
	ev.Bound("preemption_bound", bound)
	var n, trans int64
	scs := c09Scenarios(BuffSizeAlign, false)
	scs = append(scs, c09Scenarios(2*BuffSizeAlign, false)[:4]...)
	// a capacity that is not a power of two (ring arithmetic must not rely on masks)
	scs = append(scs, c09Scenarios(3*BuffSizeAlign, false)...)
	// the file under a file-backed pipe fails
	scs = append(scs, c09FaultScenarios(FileSizeAlign)...)
	if ev.Thorough() {
		scs = append(scs, c09Scenarios(FileSizeAlign, true)[:3]...)
		scs = append(scs, c09Scenarios(3*FileSizeAlign, true)[:2]...)
	}
	var idx int64
	for _, sc := range scs {
		sc := sc
		idx++
		if !ev.Mine(idx) {
			continue
		}
		b := bound
		if sc.File {
			b = 1
		}
		outcomes := map[string]bool{}
		cnt, complete := seqx.Explore(seqx.Options{MaxDev: b, Stop: ev.OverBudget}, func(ch *seqx.Chooser) {
			v, ex, run := c09Exec(sc, ch)
			trans += int64(ex.Steps)
			d := run.describe()
			if !outcomes[d] {
				outcomes[d] = true
				ev.State(ev.HashS(sc.Name + d))
			}
			if v != "" {
				parts := strings.SplitN(v, "|", 2)
				ev.Violate("C09|"+parts[0]+"|"+sc.Name, fmt.Sprintf("%s (scenario %s, capacity %d, schedule %s, events: %s)", parts[1], sc.Name, sc.Cap, ex.Describe(), d),
					c09Replay{Sub: "sched", Scenario: sc, Trail: append([]int{}, ch.Trail...)})
			}
		})
		n += int64(cnt)
		if !complete {
			ev.Cap("time budget in scenario " + sc.Name)
		}
		ev.Count("schedules:"+sc.Name, int64(cnt))
		ev.Count("distinct_histories:"+sc.Name, int64(len(outcomes)))
		ev.Nontrivial(ev.HashS(sc.Name))
		ev.Outcome(fmt.Sprintf("%d-histories", len(outcomes)))
		ev.Sample("scenario", map[string]interface{}{"scenario": sc, "schedules": cnt, "distinct_histories": len(outcomes)})
	}
	ev.Eval(n)
	ev.Trace(n)
	ev.Trans(trans)
	// sequential words
	c09Seq(t)
}

// ---------------------------------------------------------------------------------------
// sequential exploration against a byte-queue reference

type c09Model struct {
	q          []byte
	capn       int
	rerr, werr string
	wpos       int
}

// c09SeqWord runs one word of non-blocking operations on a fresh pipe and compares every result
// with the reference queue. Returns "" or a description of the first disagreement.
func c09SeqWord(capn int, file bool, word []string) string {
	run := c09New(c09Scenario{Cap: capn, File: file})
	defer run.cleanup()
	real := align(capn, BuffSizeAlign)
	if file {
		real = align(capn, FileSizeAlign)
	}
	m := &c09Model{capn: real}
	for i, op := range word {
		// never execute an operation that would block in the model's actual state
		if op[0] == 'W' && m.werr == "" && m.rerr == "" && atoi(op[1:]) > m.capn-len(m.q) {
			return ""
		}
		if op[0] == 'R' && m.werr == "" && m.rerr == "" && atoi(op[1:]) > 0 && len(m.q) == 0 {
			return ""
		}
		run.do(0, op)
		e := run.events[len(run.events)-1]
		fail := func(what string) string {
			return fmt.Sprintf("step %d (%s): %s; got n=%d err=%q (model: %d buffered, rerr=%q werr=%q)", i, op, what, e.N, e.Err, len(m.q), m.rerr, m.werr)
		}
		switch {
		case op[0] == 'W':
			k := atoi(op[1:])
			switch {
			case m.werr != "":
				if e.Err != "closed" || e.N != 0 {
					return fail("write after writer close must fail with closed pipe")
				}
			case m.rerr != "":
				if e.Err != m.rerr || e.N != 0 {
					return fail("write after reader close must fail with the reader's error")
				}
			default:
				if e.Err != "" || e.N != k {
					return fail("write that fits must be accepted completely")
				}
				for j := 0; j < k; j++ {
					m.q = append(m.q, c09Byte(m.wpos+j))
				}
				m.wpos += k
			}
		case op[0] == 'R':
			k := atoi(op[1:])
			switch {
			case m.rerr != "":
				if e.Err != "closed" || e.N != 0 {
					return fail("read after reader close must fail with closed pipe")
				}
			case k == 0:
				if e.N != 0 {
					return fail("zero-length read returned bytes")
				}
			case len(m.q) > 0:
				if e.Err != "" || e.N < 1 || e.N > k || e.N > len(m.q) || !bytes.Equal(e.Data, m.q[:e.N]) {
					return fail("read must return the oldest buffered bytes")
				}
				m.q = m.q[e.N:]
			default:
				if e.Err != m.werr || e.N != 0 {
					return fail("read on a drained pipe whose writer closed must return the writer's error")
				}
			}
		case op == "B":
			switch {
			case m.rerr != "":
				if e.Err != m.rerr {
					return fail("Buffered after reader close must return the reader's error")
				}
			case len(m.q) > 0:
				if e.N != len(m.q) || e.Err != "" {
					return fail("Buffered must report the queued bytes")
				}
			default:
				if e.N != 0 || e.Err != m.werr {
					return fail("Buffered on an empty pipe reports 0 and the writer's error, if any")
				}
			}
		case op == "A":
			switch {
			case m.werr != "":
				if e.Err != m.werr {
					return fail("Available after writer close must return the writer's error")
				}
			case m.rerr != "":
				if e.Err != m.rerr {
					return fail("Available after reader close must return the reader's error")
				}
			default:
				if e.N != m.capn-len(m.q) || e.Err != "" {
					return fail("Available must report capacity minus queued bytes")
				}
			}
		case c09IsWClose(op):
			if m.werr == "" {
				m.werr = c09CloseErr[op]
			}
		case c09IsRClose(op):
			if m.rerr == "" {
				m.rerr = c09CloseErr[op]
			}
			m.q = nil
		}
	}
	return ""
}

func c09Seq(t *testing.T) {
	maxLen := 5
	if ev.Thorough() {
		maxLen = 6
	}
	ev.Bound("sequential_word_length", maxLen)
	defer func() { errors.TraceEnabled = true }()
	for _, cfg := range []struct {
		capn     int
		file     bool
		traceOff bool // errors.TraceEnabled = false: errors travel unwrapped
	}{{BuffSizeAlign, false, false}, {BuffSizeAlign + 1, false, false}, {3 * BuffSizeAlign, false, false}, {FileSizeAlign, true, false}, {3 * FileSizeAlign, true, false}, {BuffSizeAlign, false, true}} {
		if cfg.file && !ev.Thorough() {
			continue
		}
		errors.TraceEnabled = !cfg.traceOff
		real := align(cfg.capn, BuffSizeAlign)
		ml := maxLen
		if cfg.traceOff {
			ml = maxLen - 1
		}
		if cfg.file {
			real = align(cfg.capn, FileSizeAlign)
			ml = 3
		}
		sizes := []int{0, 1, real - 1, real, real + 1}
		var n, states int64
		capped := false
		var word []string
		var rec func(buffered int, rerr, werr bool, depth int, idx int64)
		seen := map[string]bool{}
		rec = func(buffered int, rerr, werr bool, depth int, idx int64) {
			if depth == 2 && !ev.Mine(idx) {
				return
			}
			if capped {
				return
			}
			if n%2048 == 2047 && ev.OverBudget() {
				capped = true
				ev.Cap("time budget in sequential words")
				return
			}
			if depth >= 2 || ev.Mine(0) || depth == 0 {
				if depth > 0 {
					if why := c09SeqWord(cfg.capn, cfg.file, word); why != "" {
						ev.Violate("C09|sequential|"+why[strings.Index(why, "(")+1:strings.Index(why, "(")+2], fmt.Sprintf("pipe of capacity %d (file=%v), operations %v: %s", real, cfg.file, word, why),
							c09Replay{Sub: "seq", Scenario: c09Scenario{Cap: cfg.capn, File: cfg.file}, Word: append([]string{}, word...)})
					}
					n++
					k := fmt.Sprint(buffered, rerr, werr)
					if !seen[k] {
						seen[k] = true
						states++
					}
				}
			}
			if depth == ml {
				return
			}
			i := int64(0)
			try := func(op string, nb int, nr, nw bool) {
				word = append(word, op)
				rec(nb, nr, nw, depth+1, idx*32+i)
				word = word[:len(word)-1]
				i++
			}
			for _, k := range sizes {
				// writes that cannot block: they fit, or one side is closed
				if rerr || werr {
					try(fmt.Sprintf("W%d", k), buffered, rerr, werr)
				} else if k <= real-buffered {
					try(fmt.Sprintf("W%d", k), buffered+k, rerr, werr)
				}
			}
			for _, k := range sizes {
				// reads that cannot block by the estimate: data buffered, zero length, or a side closed
				// (a read may return fewer bytes than asked; the executor re-checks with the actual state)
				if rerr {
					try(fmt.Sprintf("R%d", k), 0, rerr, werr)
				} else if k == 0 || buffered > 0 || werr {
					nb := buffered - k
					if nb < 0 {
						nb = 0
					}
					try(fmt.Sprintf("R%d", k), nb, rerr, werr)
				}
			}
			try("B", buffered, rerr, werr)
			try("A", buffered, rerr, werr)
			if depth < ml {
				try("wc", buffered, rerr, true)
				try("wce", buffered, rerr, true)
				try("wcp", buffered, rerr, true)
				try("rc", 0, true, werr)
				try("rce", 0, true, werr)
				try("rco", 0, true, werr)
			}
		}
		rec(0, false, false, 0, 0)
		ev.Eval(n)
		ev.Trace(n)
		ev.Trans(n)
		ev.StatesAdd(n)
		ev.NontrivialAdd(n)
		ev.Count(fmt.Sprintf("sequential_words_cap%d_file%v", real, cfg.file), n)
	}
	// file-backed pipes beyond their first lap (quick tier too): a lagging reader, writes across the
	// ring end, three laps; power-of-two and non-power-of-two ring sizes
	if si, _ := ev.ShardInfo(); si == 0 {
		var n int64
		for _, capn := range []int{FileSizeAlign, 3 * FileSizeAlign} {
			real := align(capn, FileSizeAlign)
			q := real / 4
			W := func(k int) string { return fmt.Sprintf("W%d", k) }
			R := func(k int) string { return fmt.Sprintf("R%d", k) }
			for _, word := range [][]string{
				{W(3 * q), R(2 * q), W(2 * q), R(real), R(real), W(3 * q), R(q), W(2 * q), R(real), R(real), R(real), "wc", R(1)},
				{W(real), R(1), W(1), R(real), R(real), W(real - 1), R(real - 2), W(real - 1), R(real), R(real), "wce", R(real)},
				{W(q + 1), R(q), W(real - 1), R(real), R(real), W(real), R(real), R(real)},
			} {
				if why := c09SeqWord(capn, true, word); why != "" {
					ev.Violate("C09|file-laps|"+why[strings.Index(why, "(")+1:strings.Index(why, "(")+2], fmt.Sprintf("file-backed pipe of capacity %d, operations %v: %s", real, word, why),
						c09Replay{Sub: "seq", Scenario: c09Scenario{Cap: capn, File: true}, Word: append([]string{}, word...)})
				}
				n++
			}
		}
		ev.Eval(n)
		ev.Trace(n)
		ev.Trans(n * 10)
		ev.StatesAdd(n)
		ev.NontrivialAdd(n)
		ev.Count("file_pipe_lap_words", n)
	}
	ev.Sample("sequential", []string{"W4095", "R4094", "W4096", "B", "R4097", "wc"})
}

// TestVerif_C09Race runs the same scenario bodies free-running with the real sync package; it is
// built with -race and can only report data races.
func TestVerif_C09Race(t *testing.T) {
	defer ev.Flush("C09")
	scs := c09Scenarios(BuffSizeAlign, false)
	reps := 60
	var n int64
	for i := 0; i < reps; i++ {
		for si, sc := range scs {
			if !ev.Mine(int64(i*len(scs) + si)) {
				continue
			}
			run := c09New(sc)
			done := make(chan struct{}, len(sc.Threads))
			logs := make([]*c09Run, len(sc.Threads))
			for ti, ops := range sc.Threads {
				ti, ops := ti, ops
				// each thread logs into its own run object (the log itself must not race)
				logs[ti] = &c09Run{sc: sc, r: run.r, w: run.w, p: run.p}
				go func() {
					for _, op := range ops {
						logs[ti].do(ti, op)
					}
					done <- struct{}{}
				}()
			}
			stuck := false
			for range sc.Threads {
				select {
				case <-done:
				case <-time.After(30 * time.Second):
					stuck = true
				}
				if stuck {
					break
				}
			}
			if stuck {
				// a scenario of a few microseconds that does not end within 30 s is blocked for good
				ev.Violate("C09|free-running-blocked|"+sc.Name, "free-running execution with the real sync package did not terminate within 30 s (scenario "+sc.Name+")", c09Replay{Sub: "race", Scenario: sc})
				ev.Eval(n)
				return
			}
			n++
		}
	}
	ev.Eval(n)
}
