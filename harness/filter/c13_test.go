// C13: key filtering rewrites multi-key commands without corrupting them. Package filter.
// Unexported identifiers used: none (RedisCommands and HandleFilterKeyWithCommand are exported;
// only the key set of RedisCommands is read).
package filter

import (
	"fmt"
	"sort"
	"strings"
	"sync"
	"testing"

	"github.com/alibaba/RedisShake/pkg/redis"
	conf "github.com/alibaba/RedisShake/redis-shake/configure"
	"github.com/alibaba/RedisShake/verifrt/ev"
)

// key positions from the Redis command reference (COMMAND output: first, last, step with
// argv[0] = command name)
type c13Spec struct{ first, last, step int }

var c13Ref = map[string]c13Spec{}

func init() {
	single := "set setnx setex psetex append setbit bitfield setrange incr decr rpush lpush rpushx lpushx linsert rpop lpop lset ltrim lrem " +
		"sadd srem spop zadd zincrby zrem zremrangebyscore zremrangebyrank zremrangebylex hset hsetnx hmset hincrby hincrbyfloat hdel " +
		"incrby decrby incrbyfloat getset move expire expireat pexpire pexpireat persist restore restore-asking geoadd pfadd"
	for _, c := range strings.Fields(single) {
		c13Ref[c] = c13Spec{1, 1, 1}
	}
	for _, c := range strings.Fields("del unlink sinterstore sunionstore sdiffstore pfmerge") {
		c13Ref[c] = c13Spec{1, -1, 1}
	}
	for _, c := range strings.Fields("brpop blpop") {
		c13Ref[c] = c13Spec{1, -2, 1}
	}
	for _, c := range strings.Fields("brpoplpush rpoplpush smove rename renamenx") {
		c13Ref[c] = c13Spec{1, 2, 1}
	}
	for _, c := range strings.Fields("mset msetnx") {
		c13Ref[c] = c13Spec{1, -1, 2}
	}
	c13Ref["bitop"] = c13Spec{2, -1, 1}
}

// c13Shapes returns argument vectors (without the command name) as a list of roles:
// 'K' key, 'v' companion/other argument.
func c13Shapes(s c13Spec) []string {
	var out []string
	switch {
	case s.first == 1 && s.last == 1:
		out = []string{"K", "Kv", "Kvv", "Kvvv"}
	case s.first == 1 && s.last == 2:
		out = []string{"KK", "KKv", "KKvv"}
	case s.first == 1 && s.last == -1 && s.step == 1:
		out = []string{"K", "KK", "KKK", "KKKK"}
	case s.first == 1 && s.last == -2:
		out = []string{"Kv", "KKv", "KKKv", "KKKKv"}
	case s.step == 2:
		out = []string{"Kv", "KvKv", "KvKvKv", "KvKvKvKv"}
	case s.first == 2:
		out = []string{"vK", "vKK", "vKKK", "vKKKK"}
	}
	if ev.Thorough() {
		// two more sizes of every shape family
		switch {
		case s.first == 1 && s.last == -1 && s.step == 1:
			out = append(out, "KKKKK", "KKKKKKK")
		case s.first == 1 && s.last == -2:
			out = append(out, "KKKKKv", "KKKKKKKv")
		case s.step == 2:
			out = append(out, "KvKvKvKvKv", "KvKvKvKvKvKvKv")
		case s.first == 2:
			out = append(out, "vKKKKK", "vKKKKKKK")
		case s.first == 1 && s.last == 1:
			out = append(out, "Kvvvvv")
		}
	}
	return out
}

type c13Case struct {
	Cmd   string `json:"cmd"`
	Shape string `json:"shape"`
	Mask  int    `json:"mask"` // bit i set: i-th key passes
	Cfg   string `json:"cfg"`  // none, white, black
	// Empty: 0 none; i+1: the i-th argument is the empty string (as a key it passes a blacklist
	// and fails a whitelist)
	Empty int `json:"empty_arg_plus1,omitempty"`
	// Spell: 0: the name is handed to the filter as the table spells it; 1..3: the command goes
	// through the real argument parser first, spelled UPPER / lOWER-first / aLtErNaTiNg (a master
	// replicates the name as the client typed it)
	Spell int `json:"spelling,omitempty"`
	// Pattern (commands with many keys, where a bit mask does not reach): which keys pass —
	// "all", "none", "last", "first", "third" (every third fails), "high" (only keys from the 65th on)
	Pattern string `json:"pattern,omitempty"`
}

func (c c13Case) passes(ki int) bool {
	switch c.Pattern {
	case "":
		return ki < 62 && c.Mask&(1<<uint(ki)) != 0
	case "all":
		return true
	case "last":
		return ki == strings.Count(c.Shape, "K")-1
	case "first":
		return ki == 0
	case "third":
		return ki%3 != 2
	case "high":
		return ki >= 64
	}
	return false
}

func c13Spell(name string, how int) string {
	b := []byte(name)
	for i := range b {
		up := false
		switch how {
		case 1:
			up = true
		case 2:
			up = i > 0
		case 3:
			up = i%2 == 1
		}
		if up && b[i] >= 'a' && b[i] <= 'z' {
			b[i] -= 'a' - 'A'
		}
	}
	return string(b)
}

func c13Run(c c13Case) string {
	conf.Options.FilterKeyWhitelist, conf.Options.FilterKeyBlacklist = nil, nil
	switch c.Cfg {
	case "white":
		conf.Options.FilterKeyWhitelist = []string{"p"}
	case "black":
		conf.Options.FilterKeyBlacklist = []string{"f"}
	}
	defer func() { conf.Options.FilterKeyWhitelist, conf.Options.FilterKeyBlacklist = nil, nil }()
	var args [][]byte
	var want [][]byte
	ki, nkeys, npass := 0, 0, 0
	keepCompanion := false
	for i := 0; i < len(c.Shape); i++ {
		if c.Shape[i] == 'K' {
			nkeys++
			pass := c.passes(ki) || c.Cfg == "none"
			name := fmt.Sprintf("f%d", ki)
			if c.passes(ki) {
				name = fmt.Sprintf("p%d", ki)
			}
			if c.Empty == i+1 {
				name = ""
				pass = c.Cfg != "white"
			}
			ki++
			args = append(args, []byte(name))
			keepCompanion = pass
			if pass {
				npass++
				want = append(want, []byte(name))
			}
		} else {
			// non-key argument; named so that it would be filtered if mistaken for a key
			a := []byte(fmt.Sprintf("fv%d", i))
			if c.Empty == i+1 {
				a = []byte{}
			}
			args = append(args, a)
			isCompanion := c13Ref[c.Cmd].step == 2
			if !isCompanion || keepCompanion {
				want = append(want, a)
			}
		}
	}
	in := make([][]byte, len(args))
	copy(in, args)
	name := c.Cmd
	if c.Spell != 0 {
		// the way parseSourceCommand does it: RESP array -> ParseArgs -> filter
		var ia []interface{}
		for _, a := range in {
			ia = append(ia, a)
		}
		scmd, pargs, err := redis.ParseArgs(redis.NewCommand(c13Spell(c.Cmd, c.Spell), ia...))
		if err != nil {
			ev.Violate("C13|cmd="+c.Cmd+"|parse-error", fmt.Sprintf("ParseArgs refuses %s: %v", c13Spell(c.Cmd, c.Spell), err), c)
			return "parse-error"
		}
		name, in = scmd, pargs
	}
	got, filtered := HandleFilterKeyWithCommand(name, in)
	show := func(a [][]byte) string {
		s := make([]string, len(a))
		for i := range a {
			s[i] = string(a[i])
		}
		return strings.Join(s, " ")
	}
	class := ""
	what := ""
	switch {
	case npass == 0:
		if !filtered {
			class, what = "not-dropped", fmt.Sprintf("no key passes but the command is forwarded as '%s %s'", c.Cmd, show(got))
		}
	case filtered:
		class, what = "dropped", "a key passes but the command is dropped"
	case show(got) != show(want):
		kind := "rewritten-wrongly"
		if npass == nkeys {
			kind = "changed-although-all-pass"
		}
		class, what = kind, fmt.Sprintf("forwarded as '%s %s', expected '%s %s'", c.Cmd, show(got), c.Cmd, show(want))
	}
	if class != "" {
		ev.Violate("C13|cmd="+c.Cmd+"|"+class, fmt.Sprintf("%s %s with key filter %s: %s", c.Cmd, show(args), c.Cfg, what), c)
		return class
	}
	if npass == 0 {
		return "dropped"
	}
	if npass == nkeys {
		return "unchanged"
	}
	return "rewritten"
}

func TestVerif_C13(t *testing.T) {
	defer ev.Flush("C13")
	if ev.ReplayFile() != "" {
		var c c13Case
		if err := ev.LoadReplay(&c); err != nil {
			t.Fatal(err)
		}
		t.Logf("replay %+v -> %s", c, c13Run(c))
		return
	}
	si, _ := ev.ShardInfo()
	if si != 0 {
		return
	}
	var names []string
	for name := range RedisCommands {
		names = append(names, name)
	}
	sort.Strings(names)
	var n int64
	for _, name := range names {
		spec, ok := c13Ref[name]
		if !ok {
			ev.Note("command '" + name + "' of the tool's table is not in the reference key-position table: not judged")
			continue
		}
		for _, shape := range c13Shapes(spec) {
			nk := strings.Count(shape, "K")
			for _, cfg := range []string{"none", "white", "black"} {
				for mask := 0; mask < 1<<uint(nk); mask++ {
					for empty := 0; empty <= len(shape); empty++ {
						if empty == 0 {
							// every spelling of the command name, through the real argument parser
							for spell := 1; spell <= 3; spell++ {
								c := c13Case{Cmd: name, Shape: shape, Mask: mask, Cfg: cfg, Spell: spell}
								o := c13Run(c)
								n++
								ev.Outcome(o)
								ev.Nontrivial(ev.HashS(fmt.Sprint(c)))
								ev.State(ev.HashS(fmt.Sprint(c)))
							}
						}
						c := c13Case{Cmd: name, Shape: shape, Mask: mask, Cfg: cfg, Empty: empty}
						o := c13Run(c)
						n++
						ev.Outcome(o)
						ev.Nontrivial(ev.HashS(fmt.Sprint(c)))
						ev.State(ev.HashS(fmt.Sprint(c)))
						if (name == "mset" || name == "bitop") && empty < 2 {
							ev.Sample(name, c)
						}
					}
				}
			}
		}
	}
	// many keys in one command (beyond any machine-word bitmap): 63..66, 129 and 257 key groups
	for _, name := range names {
		spec, ok := c13Ref[name]
		if !ok {
			continue
		}
		base := c13Shapes(spec)
		var unit, pre, post string
		switch {
		case spec.first == 1 && spec.last == -1 && spec.step == 1:
			unit = "K"
		case spec.first == 1 && spec.last == -2:
			unit, post = "K", "v"
		case spec.step == 2:
			unit = "Kv"
		case spec.first == 2:
			unit, pre = "K", "v"
		default:
			_ = base
			continue // fixed arity
		}
		for _, groups := range []int{63, 64, 65, 66, 129, 257} {
			shape := pre + strings.Repeat(unit, groups) + post
			for _, cfg := range []string{"white", "black"} {
				for _, pat := range []string{"all", "none", "last", "first", "third", "high"} {
					c := c13Case{Cmd: name, Shape: shape, Cfg: cfg, Pattern: pat}
					o := c13Run(c)
					n++
					ev.Outcome(o)
					ev.Nontrivial(ev.HashS(fmt.Sprint(c)))
					ev.State(ev.HashS(fmt.Sprint(c)))
				}
			}
		}
	}
	// commands that are not key-addressed (not in the table) are forwarded unchanged
	conf.Options.FilterKeyWhitelist = []string{"p"}
	for _, name := range []string{"ping", "publish", "flushall", "select", "multi", "exec", "zunionstore", "eval", "NOSUCH"} {
		in := [][]byte{[]byte("f0"), []byte("f1")}
		got, filtered := HandleFilterKeyWithCommand(name, in)
		n++
		if _, inTable := RedisCommands[name]; inTable {
			continue
		}
		if filtered || len(got) != 2 || string(got[0]) != "f0" || string(got[1]) != "f1" {
			ev.Violate("C13|not-key-addressed-changed", fmt.Sprintf("command %s (not key-addressed) was changed or dropped by the key filter", name),
				c13Case{Cmd: name, Shape: "vv", Cfg: "white"})
		}
	}
	conf.Options.FilterKeyWhitelist = nil
	ev.Eval(n)
	ev.Trans(n)
	ev.Trace(n)
	ev.Bound("commands", len(names))
	ev.Bound("arities", "minimum .. minimum+3 key groups with every pass/fail mask; 63, 64, 65, 66, 129 and 257 key groups with six pass patterns; filter none/whitelist/blacklist")
}

// TestVerif_C13Race: the rewrite must be re-entrant. One parser goroutine runs per source
// node, so several rewrites overlap in production. Four goroutines run the whole enumeration
// concurrently under one fixed filter configuration; every result is compared with the
// sequential result of the same input, and the build is a -race build.
func TestVerif_C13Race(t *testing.T) {
	defer ev.Flush("C13")
	if ev.ReplayFile() != "" {
		return
	}
	si, _ := ev.ShardInfo()
	if si != 0 {
		return
	}
	conf.Options.FilterKeyWhitelist, conf.Options.FilterKeyBlacklist = []string{"p"}, nil
	defer func() { conf.Options.FilterKeyWhitelist = nil }()
	type in struct {
		cmd  string
		args [][]byte
		want string
	}
	var inputs []in
	var names []string
	for name := range RedisCommands {
		names = append(names, name)
	}
	sort.Strings(names)
	show := func(a [][]byte, filtered bool) string {
		s := make([]string, len(a))
		for i := range a {
			s[i] = string(a[i])
		}
		return fmt.Sprint(filtered, s)
	}
	for _, name := range names {
		spec, ok := c13Ref[name]
		if !ok {
			continue
		}
		for _, shape := range c13Shapes(spec) {
			nk := strings.Count(shape, "K")
			for mask := 0; mask < 1<<uint(nk); mask++ {
				var args [][]byte
				ki := 0
				for i := 0; i < len(shape); i++ {
					if shape[i] == 'K' {
						n := fmt.Sprintf("f%d", ki)
						if mask&(1<<uint(ki)) != 0 {
							n = fmt.Sprintf("p%d", ki)
						}
						ki++
						args = append(args, []byte(n))
					} else {
						args = append(args, []byte(fmt.Sprintf("fv%d", i)))
					}
				}
				cp := make([][]byte, len(args))
				copy(cp, args)
				got, filtered := HandleFilterKeyWithCommand(name, cp)
				inputs = append(inputs, in{name, args, show(got, filtered)})
			}
		}
	}
	var wg sync.WaitGroup
	var mu sync.Mutex
	bad := ""
	for g := 0; g < 4; g++ {
		wg.Add(1)
		go func(g int) {
			defer wg.Done()
			for rep := 0; rep < 40; rep++ {
				for i := range inputs {
					x := inputs[(i+g*97)%len(inputs)]
					cp := make([][]byte, len(x.args))
					copy(cp, x.args)
					got, filtered := HandleFilterKeyWithCommand(x.cmd, cp)
					if s := show(got, filtered); s != x.want {
						mu.Lock()
						if bad == "" {
							bad = fmt.Sprintf("%s %q rewritten to %s while other rewrites were running, alone it gives %s", x.cmd, x.args, s, x.want)
						}
						mu.Unlock()
					}
				}
			}
		}(g)
	}
	wg.Wait()
	if bad != "" {
		ev.Violate("C13|concurrent-rewrite", bad, c13Case{Cmd: "concurrent", Cfg: "white"})
	}
	ev.Eval(int64(len(inputs) * 160))
}
