// C15 (part d): every checkpoint key the tool can choose is excluded by the key filter under
// every key-filter configuration.
package filter

import (
	"fmt"
	"testing"

	utils "github.com/alibaba/RedisShake/redis-shake/common"
	conf "github.com/alibaba/RedisShake/redis-shake/configure"
	"github.com/alibaba/RedisShake/verifrt/ev"
)

func TestVerif_C15F(t *testing.T) {
	defer ev.Flush("C15")
	if ev.ReplayFile() != "" {
		return
	}
	si, _ := ev.ShardInfo()
	if si != 0 {
		return
	}
	// the distinct keys ChoseSlotInRange can return are those for singleton ranges plus the
	// first candidate; collect them
	keys := map[string]bool{utils.CheckpointKey: true}
	for s := 0; s < 16384; s += 1 {
		if s%16 == 0 { // a 1/16 grid of singletons gives ~1000 distinct keys; the predicate is prefix based
			keys[utils.ChoseSlotInRange(utils.CheckpointKey, s, s)] = true
		}
	}
	cfgs := []struct{ w, b []string }{
		{nil, nil}, {[]string{"a"}, nil}, {nil, []string{"a"}}, {[]string{"redis"}, nil}, {[]string{"redis-shake-checkpoint"}, nil},
		{[]string{"redis-shake-checkpoint-"}, nil}, {[]string{""}, nil}, {nil, []string{"zzz"}}, {[]string{"r"}, []string{"x"}},
	}
	var n int64
	for _, c := range cfgs {
		conf.Options.FilterKeyWhitelist = c.w
		conf.Options.FilterKeyBlacklist = c.b
		for k := range keys {
			n++
			if k != "" && !FilterKey(k) {
				ev.Violate("C15|checkpoint-key-not-filtered", fmt.Sprintf("checkpoint key %q passes the key filter with whitelist %q blacklist %q", k, c.w, c.b),
					map[string]interface{}{"sub": "filterkey", "key": k, "white": c.w, "black": c.b})
			}
		}
	}
	conf.Options.FilterKeyWhitelist, conf.Options.FilterKeyBlacklist = nil, nil
	ev.Eval(n)
	ev.StatesAdd(n)
	ev.Trans(n)
	ev.Trace(n)
	ev.NontrivialAdd(n)
	ev.Sample("filterkey", map[string]interface{}{"key": "redis-shake-checkpoint-aaaa", "whitelist": []string{"redis-shake-checkpoint-"}})
}
