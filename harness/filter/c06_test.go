// C06 (predicates): FilterKey / FilterDB / FilterSlot / FilterCommands against the reference.
package filter

import (
	"fmt"
	"strings"
	"testing"

	"github.com/alibaba/RedisShake/verifrt/crcref"
	"github.com/alibaba/RedisShake/verifrt/ev"
	"github.com/alibaba/RedisShake/verifrt/kit06"
)

func TestVerif_C06F(t *testing.T) {
	defer ev.Flush("C06")
	if ev.ReplayFile() != "" {
		return
	}
	si, _ := ev.ShardInfo()
	if si != 0 {
		return
	}
	defer kit06.Reset()
	var n int64
	for _, cfg := range kit06.Configs("full", 1) {
		cfg.Apply()
		for _, db := range kit06.DBs {
			n++
			if FilterDB(db) == kit06.DBPasses(cfg, db) {
				ev.Violate("C06|predicate|db", fmt.Sprintf("FilterDB(%d) says filtered=%v under %s", db, FilterDB(db), cfg), map[string]interface{}{"path": "predicate", "config": cfg})
			}
		}
		if len(cfg.DBWhite)+len(cfg.DBBlack) == 0 {
			for _, k := range kit06.Keys() {
				n++
				nodb := cfg
				// key + slot decision of the full path in a passing database
				want := kit06.Passes(nodb, "full", 0, k)
				got := !FilterKey(k) && !FilterSlot(crcref.Slot([]byte(k)))
				if got != want {
					ev.Violate("C06|predicate|key", fmt.Sprintf("key %q: predicates say pass=%v, reference %v under %s", k, got, want, cfg), map[string]interface{}{"path": "predicate", "config": cfg})
				}
			}
		}
		for _, cmd := range []string{"eval", "EVAL", "EvalSha", "script", "SCRIPT", "opinfo", "OPINFO", "OpInfo", "set", "SET", "evals", "scripts"} {
			n++
			l := strings.ToLower(cmd)
			want := l == "opinfo" || (cfg.Lua && (l == "eval" || l == "evalsha" || l == "script"))
			if FilterCommands(cmd) != want {
				ev.Violate("C06|predicate|command", fmt.Sprintf("FilterCommands(%q)=%v, expected %v (filter.lua=%v)", cmd, FilterCommands(cmd), want, cfg.Lua), map[string]interface{}{"path": "predicate", "config": cfg})
			}
		}
	}
	ev.Eval(n)
	ev.Trace(n)
	ev.Trans(n)
	ev.StatesAdd(n)
	ev.NontrivialAdd(n)
}
