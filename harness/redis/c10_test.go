// C10: RESP codec round-trips, rejects malformed input and counts bytes exactly.
// Unexported identifiers used: Decoder{r,offset}, (*Decoder).decodeResp, itos.
package redis

import (
	"sync"
	"bufio"
	"bytes"
	"encoding/hex"
	"fmt"
	"io"
	"strconv"
	"strings"
	"testing"

	"github.com/alibaba/RedisShake/verifrt/ev"
	"github.com/alibaba/RedisShake/verifrt/respref"
)

var c10Sigma = []byte{'*', '$', ':', '+', '-', '0', '1', '2', '\r', '\n', 'a', ' '}

// countingReader hands out at most chunk bytes per Read and counts them.
type countingReader struct {
	b     []byte
	pos   int
	chunk int
}

func (c *countingReader) Read(p []byte) (int, error) {
	if c.pos >= len(c.b) {
		return 0, io.EOF
	}
	n := len(p)
	if c.chunk > 0 && n > c.chunk {
		n = c.chunk
	}
	if n > len(c.b)-c.pos {
		n = len(c.b) - c.pos
	}
	copy(p, c.b[c.pos:c.pos+n])
	c.pos += n
	return n, nil
}

func c10Equal(r Resp, n *respref.Node) bool {
	if n == nil {
		return false
	}
	switch x := r.(type) {
	case *String:
		return n.Kind == '+' && bytes.Equal(x.Value, n.Text)
	case *Error:
		return n.Kind == '-' && bytes.Equal(x.Value, n.Text)
	case *Int:
		return n.Kind == ':' && x.Value == n.Int
	case *BulkBytes:
		if n.Kind != '$' {
			return false
		}
		if n.Nil {
			return x.Value == nil
		}
		return x.Value != nil && bytes.Equal(x.Value, n.Text)
	case *Array:
		if n.Kind != '*' {
			return false
		}
		if n.Nil {
			return x.Value == nil
		}
		if x.Value == nil || len(x.Value) != len(n.Elems) {
			return false
		}
		for i := range x.Value {
			if !c10Equal(x.Value[i], n.Elems[i]) {
				return false
			}
		}
		return true
	}
	return false
}

func c10ToResp(n *respref.Node) Resp {
	switch n.Kind {
	case '+':
		return &String{Value: n.Text}
	case '-':
		return &Error{Value: n.Text}
	case ':':
		return &Int{Value: n.Int}
	case '$':
		if n.Nil {
			return &BulkBytes{Value: nil}
		}
		t := n.Text
		if t == nil {
			t = []byte{}
		}
		return &BulkBytes{Value: t}
	default:
		if n.Nil {
			return &Array{Value: nil}
		}
		a := make([]Resp, 0, len(n.Elems))
		for _, e := range n.Elems {
			a = append(a, c10ToResp(e))
		}
		return &Array{Value: a}
	}
}

// c10One decodes input with the real decoder and compares with the reference. sub names the
// generator for the replay file. Returns the outcome class.
func c10One(sub string, input []byte, br *countingReader, r *bufio.Reader) string {
	ref := respref.Parse(input)
	br.b, br.pos = input, 0
	r.Reset(br)
	d := &Decoder{r: r}
	rep := map[string]string{"sub": sub, "input_hex": hex.EncodeToString(input)}
	var resp Resp
	var err error
	var goPanic interface{}
	func() {
		defer func() { goPanic = recover() }()
		resp, err = d.decodeResp(0)
	}()
	if goPanic != nil {
		// neither a value nor an error: the decoder itself blew up
		ev.Violate("C10|go-panic|"+respref.StatusName[ref.Status], fmt.Sprintf("the decoder panics (%v) instead of returning an error: input %q (reference: %s %s)", goPanic, input, respref.StatusName[ref.Status], ref.Why), rep)
		return "go-panic"
	}
	consumed := br.pos - r.Buffered()
	bad := func(class, what string) {
		ev.Violate("C10|"+class, fmt.Sprintf("%s: input %q (reference: %s %s)", what, input, respref.StatusName[ref.Status], ref.Why), rep)
	}
	if err == nil && d.offset != int64(consumed) {
		bad("offset-differs-from-bytes-consumed", fmt.Sprintf("decoder position %d but %d bytes consumed from the stream", d.offset, consumed))
	}
	switch ref.Status {
	case respref.Valid:
		if err != nil {
			bad("valid-rejected", "valid RESP rejected: "+err.Error())
			return "valid:rejected"
		}
		if !c10Equal(resp, ref.Tree) {
			bad("valid-wrong-value", fmt.Sprintf("decoded value differs from the reference tree: got %s", c10Show(resp)))
		}
		if consumed != ref.Consumed {
			bad("valid-wrong-consumed", fmt.Sprintf("consumed %d bytes, value occupies %d", consumed, ref.Consumed))
		}
		return "valid"
	case respref.Malformed, respref.Truncated:
		if err == nil {
			bad("malformed-accepted|"+ref.Why, fmt.Sprintf("%s input (%s) decoded to a value %s", respref.StatusName[ref.Status], ref.Why, c10Show(resp)))
			return "bad:accepted"
		}
		return respref.StatusName[ref.Status] + ":" + ref.Why
	}
	if err == nil {
		return "unspecified:accepted"
	}
	return "unspecified:rejected"
}

func c10Show(r Resp) string {
	b, err := EncodeToBytes(r)
	if err != nil {
		return fmt.Sprintf("<%T unencodable>", r)
	}
	return strconv.Quote(string(b))
}

func c10LongNumber(s []byte) bool {
	run := 0
	for _, c := range s {
		if c >= '0' && c <= '9' {
			run++
			if run > 3 {
				return true
			}
		} else {
			run = 0
		}
	}
	return false
}

func TestVerif_C10(t *testing.T) {
	defer ev.Flush("C10")
	br := &countingReader{}
	r := bufio.NewReaderSize(br, 4096)
	if ev.ReplayFile() != "" {
		var rp map[string]string
		if err := ev.LoadReplay(&rp); err != nil {
			t.Fatal(err)
		}
		if rp["sub"] == "bulk-size" {
			size, _ := strconv.Atoi(rp["size"])
			c10BigBulk(size, rp["nested"] == "true", br, r)
			ev.Eval(1)
			return
		}
		in, _ := hex.DecodeString(rp["input_hex"])
		out := c10One(rp["sub"], in, br, r)
		t.Logf("replay input %q -> %s (reference %v)", in, out, respref.Parse(in))
		ev.Eval(1)
		return
	}
	maxLen := 6
	if ev.Thorough() {
		maxLen = 8
	}
	ev.Bound("bytes_max_len", maxLen)
	ev.Bound("bytes_alphabet", string(c10Sigma))

	// (a) every byte string up to maxLen
	buf := make([]byte, 0, maxLen)
	var skipped, evals, nontriv int64
	outcomes := map[string]int64{}
	capped := false
	var rec func(depth int, idx int64)
	rec = func(depth int, idx int64) {
		if depth == 2 && !ev.Mine(idx) {
			return
		}
		if depth > 0 && (depth >= 2 || ev.Mine(0)) {
			if c10LongNumber(buf) {
				skipped++
			} else {
				cp := buf
				o := c10One("bytes", cp, br, r)
				outcomes[o]++
				evals++
				if o[0] == 'v' || o[0] == 'm' || o[0] == 't' || o[0] == 'b' {
					nontriv++
				}
				if outcomes[o] == 1 && len(cp) >= 4 {
					ev.Sample("bytes:"+o, strconv.Quote(string(cp)))
				}
				if evals%4096 == 0 && ev.OverBudget() {
					capped = true
				}
			}
		}
		if depth == maxLen || capped {
			return
		}
		for i, c := range c10Sigma {
			buf = append(buf, c)
			rec(depth+1, idx*int64(len(c10Sigma))+int64(i))
			buf = buf[:len(buf)-1]
		}
	}
	rec(0, 0)
	if capped {
		ev.Cap("time budget in byte-string enumeration")
	}
	ev.Eval(evals)
	ev.StatesAdd(evals)
	ev.Trans(evals)
	ev.Trace(evals)
	ev.NontrivialAdd(nontriv)
	ev.Count("bytes_skipped_number_longer_than_3_digits", skipped)
	for k, v := range outcomes {
		for i := int64(0); i < 1; i++ {
			ev.Outcome("bytes:" + k)
		}
		ev.Count("bytes_outcome:"+k, v)
	}

	// the remaining parts are small: shard 0 does (b), shard 1 (c)+(d)
	si, sn := ev.ShardInfo()
	if si == 0 {
		c10Trees(t, br, r)
	}
	if si == 1%sn {
		c10Commands(t)
		c10Itos(t)
	}
	// (f) integer texts at the int64 limits (the byte-string enumeration stops at 3 digits): as an
	// integer value, as a bulk length, as an array length, alone and inside an array
	if si == 2%sn {
		var texts []string
		for _, digits := range []string{"0", "00", "007", "9", "524287", "524288", "999999999999999999", "1000000000000000000",
			"9223372036854775806", "9223372036854775807", "9223372036854775808", "9223372036854775809", "9999999999999999999",
			"10000000000000000000", "18446744073709551615", "18446744073709551616", "99999999999999999999", "123456789012345678901234567890"} {
			for _, sign := range []string{"", "-", "+"} {
				texts = append(texts, sign+digits)
			}
		}
		var ni int64
		for _, tx := range texts {
			for _, in := range []string{":" + tx + "\r\n", "*1\r\n:" + tx + "\r\n", "*2\r\n:1\r\n:" + tx + "\r\n", "$" + tx + "\r\n", "*" + tx + "\r\n"} {
				ni++
				o := c10One("int-text", []byte(in), br, r)
				ev.Outcome("int-text:" + o)
				h := ev.HashS("int-text" + in)
				ev.State(h)
				ev.Nontrivial(h)
			}
		}
		ev.Eval(ni)
		ev.Trace(ni)
		ev.Trans(ni)
		ev.Bound("integer_texts", len(texts))
	}
	// (e) payload sizes: one bulk of every size 2^k-1, 2^k, 2^k+1 for k = 6..24 (quick: ..21),
	// alone and as the argument of a command; spread over the shards
	maxK := 21
	if ev.Thorough() {
		maxK = 24
	}
	var nb int64
	for k := 6; k <= maxK; k++ {
		for d := -1; d <= 1; d++ {
			for _, nested := range []bool{false, true} {
				nb++
				if !ev.Mine(nb) {
					continue
				}
				c10BigBulk(1<<uint(k)+d, nested, br, r)
				ev.Eval(1)
				ev.Trace(1)
				ev.Trans(1)
				h := ev.HashS(fmt.Sprint("bulk-size", k, d, nested))
				ev.State(h)
				ev.Nontrivial(h)
			}
		}
	}
	ev.Bound("bulk_sizes", fmt.Sprintf("2^k-1, 2^k, 2^k+1 for k=6..%d", maxK))
}

// c10BigBulk round-trips one binary bulk of the given size (alone, or as the second argument
// of a two-argument command) through encoder and decoder, also through a 4 KiB bufio.Reader.
func c10BigBulk(size int, nested bool, br *countingReader, r *bufio.Reader) {
	payload := make([]byte, size)
	for i := range payload {
		payload[i] = byte(i*131 + i>>8 + size)
	}
	node := &respref.Node{Kind: '$', Text: payload}
	if nested {
		node = &respref.Node{Kind: '*', Elems: []*respref.Node{leaf('$', "SET"), node}}
	}
	want := respref.Encode(node)
	rep := map[string]string{"sub": "bulk-size", "size": strconv.Itoa(size), "nested": strconv.FormatBool(nested)}
	got, err := EncodeToBytes(c10ToResp(node))
	if err != nil || !bytes.Equal(got, want) {
		ev.Violate("C10|encode-differs|bulk-size", fmt.Sprintf("Encode of a %d byte bulk (nested=%v) differs from the reference (%v)", size, nested, err), rep)
		return
	}
	back, err := DecodeFromBytes(got)
	if err != nil || !c10Equal(back, node) {
		ev.Violate("C10|roundtrip|bulk-size", fmt.Sprintf("Encode->Decode of a %d byte bulk (nested=%v) does not return the value (%v)", size, nested, err), rep)
		return
	}
	br.b, br.pos, br.chunk = want, 0, 0
	r.Reset(br)
	dec := NewDecoder(r)
	back2, n, err := func() (x Resp, n int64, err error) {
		defer func() {
			if p := recover(); p != nil {
				err = fmt.Errorf("panic: %v", p)
			}
		}()
		x, n = MustDecodeOpt(dec)
		return
	}()
	if err != nil || !c10Equal(back2, node) || n != int64(len(want)) {
		ev.Violate("C10|stream-value|bulk-size", fmt.Sprintf("a %d byte bulk (nested=%v) read from a stream: err=%v, position %d of %d", size, nested, err, n, len(want)), rep)
	}
}

func leaf(kind byte, s string) *respref.Node { return &respref.Node{Kind: kind, Text: []byte(s)} }

func c10Trees(t *testing.T, br *countingReader, r *bufio.Reader) {
	ints := []int64{-9223372036854775808, -1025, -1024, -1, 0, 1, 524287, 524288, 524289, 9223372036854775807}
	var full []*respref.Node
	for _, s := range []string{"", "a", "a b"} {
		full = append(full, leaf('+', s), leaf('-', s))
	}
	for _, v := range ints {
		full = append(full, &respref.Node{Kind: ':', Int: v})
	}
	full = append(full, &respref.Node{Kind: '$', Nil: true}, leaf('$', ""), leaf('$', "a"), leaf('$', "\r\n"), leaf('$', "$-1\r\n"))
	for c := 0; c < 256; c++ {
		full = append(full, leaf('$', string([]byte{byte(c)})))
	}
	full = append(full, &respref.Node{Kind: '*', Nil: true}, &respref.Node{Kind: '*', Elems: []*respref.Node{}})
	reduced := []*respref.Node{leaf('+', ""), leaf('+', "a"), leaf('-', "a"),
		{Kind: ':', Int: ints[0]}, {Kind: ':', Int: -1025}, {Kind: ':', Int: 524288},
		{Kind: '$', Nil: true}, leaf('$', ""), leaf('$', "\r\n"), leaf('$', "\x00\xff"),
		{Kind: '*', Nil: true}, {Kind: '*', Elems: []*respref.Node{}}}
	arrays := func(over []*respref.Node) []*respref.Node {
		out := []*respref.Node{}
		for _, a := range over {
			out = append(out, &respref.Node{Kind: '*', Elems: []*respref.Node{a}})
			for _, b := range over {
				out = append(out, &respref.Node{Kind: '*', Elems: []*respref.Node{a, b}})
			}
		}
		return out
	}
	t1 := append(append([]*respref.Node{}, reduced...), arrays(reduced)...)
	var trees []*respref.Node
	trees = append(trees, full...)
	for _, a := range full {
		trees = append(trees, &respref.Node{Kind: '*', Elems: []*respref.Node{a}})
	}
	trees = append(trees, arrays(reduced)...)
	if ev.Thorough() {
		trees = append(trees, arrays(t1)...)
	} else {
		// quick: depth-2 arrays with one element drawn from all of t1, two from a diagonal
		for i, a := range t1 {
			trees = append(trees, &respref.Node{Kind: '*', Elems: []*respref.Node{a}})
			trees = append(trees, &respref.Node{Kind: '*', Elems: []*respref.Node{a, t1[(i*7+3)%len(t1)]}})
		}
	}
	ev.Bound("trees", len(trees))
	var n int64
	for _, tr := range trees {
		n++
		want := respref.Encode(tr)
		rep := map[string]string{"sub": "tree", "input_hex": hex.EncodeToString(want)}
		got, err := EncodeToBytes(c10ToResp(tr))
		if err != nil || !bytes.Equal(got, want) {
			ev.Violate("C10|encode-differs", fmt.Sprintf("Encode of %q gave %q (%v)", want, got, err), rep)
			continue
		}
		c10One("tree", want, br, r)
		back, err := DecodeFromBytes(got)
		if err != nil || !c10Equal(back, tr) {
			ev.Violate("C10|roundtrip", fmt.Sprintf("Encode->Decode of %q does not return the value (%v)", want, err), rep)
		}
		ev.Nontrivial(ev.Hash(want))
	}
	ev.Eval(n)
	ev.Trace(n)
	ev.Sample("tree", map[string]string{"encoded": string(respref.Encode(trees[len(trees)-1]))})

	// streams: 2 and 3 values with 0..2 keep-alive newlines in front of each, read through
	// different buffering; a trailer must stay unread
	streamVals := t1
	if !ev.Thorough() {
		streamVals = reduced
	}
	trailer := []byte("+TRAILER\r\n")
	var ns int64
	type rd struct{ size, chunk int }
	rds := []rd{{16, 0}, {4096, 0}, {16, 1}, {4096, 1}, {16, 3}}
	run := func(vals []*respref.Node, nl []int) {
		var stream []byte
		var ends []int
		for i, v := range vals {
			for k := 0; k < nl[i]; k++ {
				stream = append(stream, '\n')
			}
			stream = append(stream, respref.Encode(v)...)
			ends = append(ends, len(stream))
		}
		stream = append(stream, trailer...)
		for _, c := range rds {
			ns++
			cr := &countingReader{b: stream, chunk: c.chunk}
			bio := bufio.NewReaderSize(cr, c.size)
			d := NewDecoder(bio)
			rep := map[string]string{"sub": "stream", "input_hex": hex.EncodeToString(stream), "bufio": strconv.Itoa(c.size), "chunk": strconv.Itoa(c.chunk)}
			ok := true
			var held []Resp
			for i, v := range vals {
				resp, err := d.decodeResp(0)
				held = append(held, resp)
				if err != nil || !c10Equal(resp, v) {
					ev.Violate("C10|stream-value", fmt.Sprintf("value %d of stream %q decoded wrongly (%v)", i, stream, err), rep)
					ok = false
					break
				}
				if d.offset != int64(ends[i]) {
					ev.Violate("C10|stream-offset", fmt.Sprintf("after value %d of stream %q position is %d, bytes up to here %d", i, stream, d.offset, ends[i]), rep)
					ok = false
					break
				}
				if cr.pos-bio.Buffered() != ends[i] {
					ev.Violate("C10|stream-consumed", fmt.Sprintf("after value %d of stream %q %d bytes were taken from the stream, expected %d", i, stream, cr.pos-bio.Buffered(), ends[i]), rep)
					ok = false
					break
				}
			}
			if ok {
				rest, _ := ioReadAll(bio)
				if !bytes.Equal(rest, trailer) {
					ev.Violate("C10|stream-rest", fmt.Sprintf("bytes after the values of stream %q were disturbed: %q", stream, rest), rep)
				}
				// values handed out earlier are queued by the caller while the reader goes on
				for i, v := range vals {
					if !c10Equal(held[i], v) {
						ev.Violate("C10|stream-value-changed-later", fmt.Sprintf("value %d of stream %q was correct when returned and differs after the rest of the stream was read", i, stream), rep)
						break
					}
				}
			}
		}
		ev.Nontrivial(ev.Hash(stream))
	}
	// every tree on its own through every buffering (a value must not alias a buffer that is
	// refilled while the rest of the array is still being read)
	for _, tr := range trees {
		run([]*respref.Node{tr}, []int{1})
	}
	// longer status/error texts inside arrays, followed by more elements
	long := leaf('+', "QUEUED-and-a-longer-status-text")
	lerr := leaf('-', "ERR wrong kind of value")
	big := leaf('$', strings.Repeat("payload-", 8))
	for _, inner := range [][]*respref.Node{{long, lerr, big}, {lerr, {Kind: ':', Int: 524289}, long, big, long}, {long, {Kind: '*', Elems: []*respref.Node{lerr, big, long}}, lerr}} {
		run([]*respref.Node{{Kind: '*', Elems: inner}, long}, []int{0, 2})
	}
	for _, a := range streamVals {
		for _, b := range streamVals {
			for na := 0; na < 3; na++ {
				for nb := 0; nb < 3; nb++ {
					run([]*respref.Node{a, b}, []int{na, nb})
				}
			}
		}
	}
	for _, a := range reduced {
		for _, b := range reduced {
			for _, c := range reduced {
				run([]*respref.Node{a, b, c}, []int{1, 0, 2})
			}
		}
	}
	// inline (space separated) command lines in streams, each value held until the stream ends
	inl := []string{"PING", "SET k1 v1", "get k2", "DEL a b c", "SET averyveryverylongkeyname-0123456789 and-a-long-value-0123456789"}
	for _, sizes := range []rd{{16, 0}, {64, 0}, {4096, 0}, {64, 5}} {
		for a := range inl {
			for b := range inl {
				lines := []string{inl[a], inl[b], inl[(a+b)%len(inl)]}
				var stream []byte
				var want []*respref.Node
				for _, ln := range lines {
					stream = append(stream, []byte(ln+"\r\n")...)
					nd := &respref.Node{Kind: '*', Elems: []*respref.Node{}}
					for _, f := range strings.Split(ln, " ") {
						nd.Elems = append(nd.Elems, leaf('$', f))
					}
					want = append(want, nd)
				}
				// enough RESP traffic afterwards to refill every buffer size several times
				tail := respref.Encode(&respref.Node{Kind: '*', Elems: []*respref.Node{leaf('$', "SET"), leaf('$', "k"), leaf('$', strings.Repeat("z", 9000))}})
				stream = append(stream, tail...)
				ns++
				cr := &countingReader{b: stream, chunk: sizes.chunk}
				d := NewDecoder(bufio.NewReaderSize(cr, sizes.size))
				rep := map[string]string{"sub": "inline-stream", "input_hex": hex.EncodeToString(stream[:len(stream)-len(tail)]), "bufio": strconv.Itoa(sizes.size)}
				var held []Resp
				bad := false
				for i := range lines {
					resp, err := d.decodeResp(0)
					if err != nil || !c10Equal(resp, want[i]) {
						ev.Violate("C10|inline-value", fmt.Sprintf("inline command %q decoded wrongly (%v)", lines[i], err), rep)
						bad = true
						break
					}
					held = append(held, resp)
				}
				if bad {
					continue
				}
				if _, err := d.decodeResp(0); err != nil {
					ev.Violate("C10|inline-stream-rest", fmt.Sprintf("the RESP command after inline commands %q does not decode: %v", lines, err), rep)
					continue
				}
				if d.offset != int64(len(stream)) {
					ev.Violate("C10|stream-offset", fmt.Sprintf("after inline commands %q and one RESP command the position is %d, bytes read %d", lines, d.offset, len(stream)), rep)
				}
				for i := range lines {
					if !c10Equal(held[i], want[i]) {
						ev.Violate("C10|stream-value-changed-later", fmt.Sprintf("inline command %q was correct when returned and differs after more of the stream was read (bufio %d)", lines[i], sizes.size), rep)
						break
					}
				}
				ev.Nontrivial(ev.Hash(append([]byte{byte(sizes.size)}, stream[:64]...)))
			}
		}
	}
	ev.Eval(ns)
	ev.Trace(ns)
	ev.Trans(ns * 2)
	ev.Sample("stream", map[string]string{"stream": "\\n:524288\\r\\n\\n\\n$2\\r\\n\\r\\n\\r\\n+TRAILER\\r\\n", "readers": "bufio 16/4096 over whole, 1-byte and 3-byte reads"})

	// corruptions: every single-byte substitution (all 255 other values) and every truncation
	// of the encoding of every tree in t1 and every full leaf
	var nc int64
	subj := append(append([]*respref.Node{}, full...), arrays(reduced)...)
	for _, tr := range subj {
		enc := respref.Encode(tr)
		for pos := 0; pos < len(enc); pos++ {
			orig := enc[pos]
			for v := 0; v < 256; v++ {
				if byte(v) == orig {
					continue
				}
				enc[pos] = byte(v)
				if c10LongNumber(enc) {
					continue
				}
				o := c10One("corrupt", enc, br, r)
				nc++
				ev.Outcome("corrupt:" + o)
			}
			enc[pos] = orig
		}
		for cut := 0; cut < len(enc); cut++ {
			o := c10One("truncate", enc[:cut], br, r)
			nc++
			ev.Outcome("truncate:" + o)
		}
	}
	ev.Eval(nc)
	ev.Trace(nc)
	ev.Trans(nc)
	ev.NontrivialAdd(0)
	ev.Count("corruptions", nc)
}

func ioReadAll(r io.Reader) ([]byte, error) {
	var out []byte
	buf := make([]byte, 64)
	for {
		n, err := r.Read(buf)
		out = append(out, buf[:n]...)
		if err != nil {
			if err == io.EOF {
				return out, nil
			}
			return out, err
		}
	}
}

func c10Commands(t *testing.T) {
	cmds := []string{"SET", "set", "SeT", "x", "opinfo"}
	argv := [][]byte{[]byte(""), []byte("a"), []byte("\r\n"), []byte(" "), []byte("*1")}
	var n int64
	var rec func(args [][]byte, depth int)
	check := func(cmd string, args [][]byte) {
		n++
		rep := map[string]interface{}{"sub": "command", "cmd": cmd, "args": args}
		resp := ChangeArgsToResp([]byte(cmd), args)
		enc, err := EncodeToBytes(resp)
		if err != nil {
			ev.Violate("C10|command-encode", fmt.Sprintf("command %s %q does not encode: %v", cmd, args, err), rep)
			return
		}
		back, err := DecodeFromBytes(enc)
		if err != nil {
			ev.Violate("C10|command-decode", fmt.Sprintf("command %s %q does not decode: %v", cmd, args, err), rep)
			return
		}
		c, a, err := ParseArgs(back)
		lower := []byte(cmd)
		for i := range lower {
			if lower[i] >= 'A' && lower[i] <= 'Z' {
				lower[i] += 32
			}
		}
		okArgs := err == nil && c == string(lower) && len(a) == len(args)
		if okArgs {
			for i := range a {
				if !bytes.Equal(a[i], args[i]) {
					okArgs = false
				}
			}
		}
		if !okArgs {
			ev.Violate("C10|command-roundtrip", fmt.Sprintf("command %s %q came back as %s %q (%v)", cmd, args, c, a, err), rep)
		}
		// NewCommand builds the same array
		ia := make([]interface{}, len(args))
		for i := range args {
			if i%2 == 0 {
				ia[i] = args[i]
			} else {
				ia[i] = string(args[i])
			}
		}
		enc2, err := EncodeToBytes(NewCommand(cmd, ia...))
		if err != nil || !bytes.Equal(enc, enc2) {
			ev.Violate("C10|newcommand", fmt.Sprintf("NewCommand(%s,%q) encodes to %q, ChangeArgsToResp to %q", cmd, args, enc2, enc), rep)
		}
		ev.Nontrivial(ev.Hash(enc))
	}
	rec = func(args [][]byte, depth int) {
		for _, c := range cmds {
			check(c, args)
		}
		if depth == 3 {
			return
		}
		for _, a := range argv {
			rec(append(append([][]byte{}, args...), a), depth+1)
		}
	}
	rec(nil, 0)
	// ParseArgs must refuse non-commands
	for _, bad := range []Resp{&Int{1}, &BulkBytes{[]byte("a")}, &Array{}, &Array{Value: []Resp{}}, &Array{Value: []Resp{&Int{1}}},
		&Array{Value: []Resp{&BulkBytes{[]byte("")}}}, &Array{Value: []Resp{&BulkBytes{[]byte("a")}, &Int{2}}}} {
		n++
		if _, _, err := ParseArgs(bad); err == nil {
			ev.Violate("C10|parseargs-accepts-noncommand", fmt.Sprintf("ParseArgs accepted %s", c10Show(bad)), map[string]string{"sub": "parseargs"})
		}
	}
	ev.Eval(n)
	ev.Trace(n)
	ev.Sample("command", map[string]string{"cmd": "SeT", "args": "[\"\", \"\\r\\n\", \"*1\"]"})
}

func c10Itos(t *testing.T) {
	var n int64
	chk := func(i int64) {
		n++
		if itos(i) != strconv.FormatInt(i, 10) {
			ev.Violate("C10|itos", fmt.Sprintf("integer %d is rendered as %q", i, itos(i)), map[string]string{"sub": "itos", "value": strconv.FormatInt(i, 10)})
		}
	}
	for i := int64(-3000); i <= 527000; i++ {
		chk(i)
	}
	for _, i := range []int64{-9223372036854775808, 9223372036854775807, -1 << 31, 1 << 31, 1 << 32, -(1 << 32)} {
		chk(i)
	}
	ev.Eval(n)
	ev.Count("itos_values", n)
}

// TestVerif_C10Race: the first encodes and decodes of a process happen on several connections
// at once (parallel restore / sync workers at start-up). 32 goroutines are released together,
// each encodes integers, bulks and arrays and decodes them back; every round trip must hold.
// A -race build reports tables or buffers shared without synchronisation.
func TestVerif_C10Race(t *testing.T) {
	defer ev.Flush("C10")
	if ev.ReplayFile() != "" {
		return
	}
	si, _ := ev.ShardInfo()
	if si != 0 {
		return
	}
	const workers = 32
	start := make(chan struct{})
	var wg sync.WaitGroup
	var mu sync.Mutex
	bad := ""
	for w := 0; w < workers; w++ {
		wg.Add(1)
		go func(w int) {
			defer wg.Done()
			<-start
			for r := 0; r < 200; r++ {
				n := int64(w*1000 + r*7 - 1024)
				tree := &respref.Node{Kind: '*', Elems: []*respref.Node{
					{Kind: ':', Int: n}, leaf('$', strings.Repeat("x", (w*13+r)%600)), {Kind: ':', Int: int64(524288 - r + w)}, leaf('+', "OK"), {Kind: '$', Nil: true}}}
				want := respref.Encode(tree)
				got, err := EncodeToBytes(c10ToResp(tree))
				why := ""
				if err != nil || !bytes.Equal(got, want) {
					why = fmt.Sprintf("Encode gave %q, expected %q (%v)", got, want, err)
				} else if back, err := DecodeFromBytes(got); err != nil || !c10Equal(back, tree) {
					why = fmt.Sprintf("Encode->Decode of %q does not return the value (%v)", want, err)
				}
				if why != "" {
					mu.Lock()
					if bad == "" {
						bad = fmt.Sprintf("worker %d of %d started together, value %d: %s", w, workers, r, why)
					}
					mu.Unlock()
					return
				}
			}
		}(w)
	}
	close(start)
	wg.Wait()
	if bad != "" {
		ev.Violate("C10|concurrent-first-use", bad, map[string]string{"sub": "race"})
	}
	n := int64(workers * 200)
	ev.Eval(n)
	ev.Trace(n)
	ev.Trans(n)
	ev.StatesAdd(n)
	ev.NontrivialAdd(n)
}
