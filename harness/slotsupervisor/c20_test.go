//go:debug asynctimerchan=0

// C20: source re-discovery selects a node that really is the master. Package slotsupervisor.
// Unexported identifiers used: slotSupervisor{slot,redisConnFactory,maxRetries}, recursiveGetSlotState.
package slotsupervisor

import (
	"crypto/ecdsa"
	"crypto/elliptic"
	"crypto/rand"
	"crypto/tls"
	"crypto/x509"
	"crypto/x509/pkix"
	"encoding/pem"
	"errors"
	"fmt"
	"io/ioutil"
	"math/big"
	"net"
	"os"
	"path/filepath"
	"reflect"
	"sort"
	"strings"
	"testing"
	"testing/synctest"
	"time"

	"github.com/alibaba/RedisShake/pkg/libs/log"
	conf "github.com/alibaba/RedisShake/redis-shake/configure"
	"github.com/alibaba/RedisShake/redis-shake/dbSync/slot"
	"github.com/alibaba/RedisShake/verifrt/ev"
	"github.com/alibaba/RedisShake/verifrt/hook"
	"github.com/alibaba/RedisShake/verifrt/memconn"
	"github.com/alibaba/RedisShake/verifrt/msource"
	"github.com/alibaba/RedisShake/verifrt/seqx"
	redigo "github.com/garyburd/redigo/redis"
)

var c20Answers = []string{"connect-error", "command-error", "command-error-noauth", "no-role-line", "slave", "slave-late-line", "master", "master-late-line"}

func c20IsMaster(a int) bool { return strings.HasPrefix(c20Answers[a], "master") }

type c20Conn struct{ answer int }

func (c *c20Conn) Close() error { return nil }
func (c *c20Conn) Err() error   { return nil }
func (c *c20Conn) Do(cmd string, args ...interface{}) (interface{}, error) {
	switch c20Answers[c.answer] {
	case "command-error":
		return nil, errors.New("ERR unknown command 'info'")
	case "command-error-noauth":
		// a node whose password differs from the configured one (the failed AUTH at connect goes unnoticed)
		return nil, errors.New("NOAUTH Authentication required.")
	case "no-role-line":
		return "# Replication\r\nconnected_slaves:0\r\nmaster_replid:abc\r\n", nil
	case "slave":
		return "# Replication\r\nrole:slave\r\nmaster_host:10.0.0.1\r\nmaster_link_status:up\r\n", nil
	case "slave-late-line":
		return "# Replication\r\nfoo:1\r\nmaster_host:role:master\r\nrole:slave\r\n", nil
	case "master":
		return []byte("# Replication\r\nrole:master\r\nconnected_slaves:2\r\n"), nil
	case "master-late-line":
		return "# Replication\r\nconnected_slaves:2\r\nslave0:ip=1,role:slave\r\nrole:master\r\n", nil
	}
	return nil, errors.New("unexpected")
}
func (c *c20Conn) Send(string, ...interface{}) error { return nil }
func (c *c20Conn) Flush() error                      { return nil }
func (c *c20Conn) Receive() (interface{}, error)     { return nil, errors.New("unexpected") }

type c20Case struct {
	Nodes      int   `json:"nodes"`
	MaxRetries int   `json:"max_retries"`
	Trail      []int `json:"trail"`
}

// c20Run performs one execution inside a synctest bubble. ch supplies the per-probe answers.
func c20Run(t *testing.T, c c20Case, ch *seqx.Chooser, judge func() bool) string {
	names := []string{"A:1", "B:1", "C:1"}[:c.Nodes]
	node := slot.SyncNode{Id: 1, Source: names[0], SourcePassword: "pw", Slaves: append([]string{}, names[1:]...), SlotLeftBoundary: 0, SlotRightBoundary: 100}
	var probes []string // "round:node:answer"
	perRound := map[int]map[string]int{}
	nprobe := 0
	var res *slot.SyncNode
	var err error
	var elapsed time.Duration
	var ssAfter slot.SyncNode
	synctest.Test(t, func(t *testing.T) {
		ss := &slotSupervisor{slot: node, maxRetries: c.MaxRetries}
		ss.redisConnFactory = func(host, password string, tlsEnable bool) (redigo.Conn, error) {
			round := nprobe / c.Nodes
			nprobe++
			a := ch.Choose(len(c20Answers))
			if perRound[round] == nil {
				perRound[round] = map[string]int{}
			}
			perRound[round][host] = a
			probes = append(probes, fmt.Sprintf("r%d:%s:%s", round, host, c20Answers[a]))
			if c20Answers[a] == "connect-error" {
				return nil, errors.New("dial tcp: connection refused")
			}
			return &c20Conn{answer: a}, nil
		}
		t0 := time.Now()
		res, err = ss.recursiveGetSlotState(c.MaxRetries)
		elapsed = time.Since(t0)
		ssAfter = ss.slot
	})
	if !judge() {
		return "not-owned"
	}
	c.Trail = append([]int{}, ch.Trail...)
	bad := func(kind, what string) string {
		ev.Violate("C20|"+kind, fmt.Sprintf("%s (nodes %v, maxRetries %d, probes %s; result %v err=%v after %v)", what, names, c.MaxRetries, strings.Join(probes, " "), res, err, elapsed), c)
		return kind
	}
	if !reflect.DeepEqual(ssAfter, node) {
		return bad("state-changed", "the supervisor's own node description changed")
	}
	rounds := (nprobe + c.Nodes - 1) / c.Nodes
	if nprobe%c.Nodes != 0 {
		return bad("partial-round", "a round did not probe every known node")
	}
	last := perRound[rounds-1]
	masterInLast := false
	for _, a := range last {
		if c20IsMaster(a) {
			masterInLast = true
		}
	}
	for r := 0; r < rounds-1; r++ {
		for _, a := range perRound[r] {
			if c20IsMaster(a) {
				return bad("retried-despite-master", fmt.Sprintf("round %d had a master but discovery went on", r))
			}
		}
	}
	if masterInLast {
		if err != nil || res == nil {
			return bad("master-not-found", "a node reports the master role but discovery failed")
		}
		if a, ok := last[res.Source]; !ok || !c20IsMaster(a) {
			return bad("non-master-chosen", fmt.Sprintf("chosen source %s did not report the master role in the final round", res.Source))
		}
		all := append([]string{res.Source}, res.Slaves...)
		sort.Strings(all)
		want := append([]string{}, names...)
		sort.Strings(want)
		if !reflect.DeepEqual(all, want) {
			return bad("node-list", fmt.Sprintf("source+replicas = %v, known nodes = %v", all, want))
		}
		return fmt.Sprintf("master-round%d", rounds-1)
	}
	if err == nil {
		src := "<nil>"
		if res != nil {
			src = res.Source
		}
		return bad("success-without-master", "no node reports the master role but discovery succeeded with source "+src)
	}
	if rounds != c.MaxRetries+1 {
		return bad("retry-count", fmt.Sprintf("gave up after %d rounds, expected %d", rounds, c.MaxRetries+1))
	}
	wantSleep := time.Duration(c.MaxRetries*(c.MaxRetries+1)/2) * time.Second
	if elapsed != wantSleep {
		return bad("backoff", fmt.Sprintf("total back-off %v, expected %v", elapsed, wantSleep))
	}
	return "error-after-retries"
}

func TestVerif_C20(t *testing.T) {
	defer ev.Flush("C20")
	log.SetLevel(log.LEVEL_NONE)
	if ev.ReplayFile() != "" {
		var c c20Case
		if err := ev.LoadReplay(&c); err != nil {
			t.Fatal(err)
		}
		ch := seqx.NewReplay(c.Trail)
		t.Logf("replay -> %s", c20Run(t, c, ch, func() bool { return true }))
		return
	}
	type plan struct {
		nodes, retries, maxDev int
	}
	plans := []plan{{1, 1, -1}, {2, 1, -1}, {3, 1, -1}, {1, 2, -1}, {2, 2, -1}, {1, 6, 3}, {2, 6, 2}, {3, 6, 2}}
	if ev.Thorough() {
		plans = append(plans, plan{3, 2, -1}, plan{1, 6, -1}, plan{2, 6, 3}, plan{3, 6, 3})
	}
	var n, trans int64
	_, sn := ev.ShardInfo()
	for _, p := range plans {
		if ev.OverBudget() {
			ev.Cap("time budget")
			break
		}
		opt := seqx.Options{MaxDev: p.maxDev, ShardDepth: 2, Mine: func(prefix []int) bool {
			h := int64(0)
			for _, v := range prefix {
				h = h*7 + int64(v)
			}
			return ev.Mine(h)
		}, Stop: ev.OverBudget}
		if sn == 1 {
			opt.Mine = nil
		}
		_, complete := seqx.Explore(opt, func(ch *seqx.Chooser) {
			o := c20Run(t, c20Case{Nodes: p.nodes, MaxRetries: p.retries}, ch, ch.Owned)
			if o == "not-owned" {
				return
			}
			n++
			trans += int64(len(ch.Trail))
			ev.Outcome(o)
			ev.State(ev.HashS(fmt.Sprint(p.nodes, p.retries, ch.Trail)))
			if strings.HasPrefix(o, "master") || o == "error-after-retries" {
				ev.Nontrivial(ev.HashS(fmt.Sprint(p.nodes, p.retries, ch.Trail)))
			}
			if n%5000 == 1 {
				ev.Sample(o, c20Case{Nodes: p.nodes, MaxRetries: p.retries, Trail: append([]int{}, ch.Trail...)})
			}
		})
		if !complete {
			ev.Cap(fmt.Sprintf("plan nodes=%d retries=%d not completed", p.nodes, p.retries))
		}
		ev.Bound(fmt.Sprintf("nodes%d_retries%d", p.nodes, p.retries), fmt.Sprintf("deviations<=%d (-1: full product of 7 answers per probe)", p.maxDev))
	}
	ev.Eval(n)
	ev.Trace(n)
	ev.Trans(trans)
}

// c20fRun: re-discovery through the real connection factory (dial, AUTH, INFO replication over
// a connection) against model nodes. The promoted node answers AUTH in one of the ways real
// servers do; whatever it answers, a node that reports role:master must be found.
type c20fCase struct {
	Password   bool   `json:"password_configured"`
	AuthReply  string `json:"auth_reply_of_new_master"`
	MasterNode int    `json:"master_node"` // which of the three nodes reports role:master
	// TLS: source.tls_enable (the nodes speak TLS with certificates of a harness CA that the
	// process trusts); Down: indexes of nodes that refuse connections
	TLS  bool  `json:"source_tls_enable,omitempty"`
	Down []int `json:"nodes_down,omitempty"`
	// Closing: indexes of nodes that accept the connection and close it as soon as the first command arrives (a proxy whose
	// backend is gone, a node at its client limit)
	Closing []int `json:"nodes_closing,omitempty"`
}

// c20TLS: a CA and one server certificate for the three node addresses, valid from 1990 to 2100
// (the bubble's clock starts in 2000); the CA is made a system root through SSL_CERT_FILE before
// the process loads its root pool.
var c20TLSConfig *tls.Config

func init() {
	caKey, err := ecdsa.GenerateKey(elliptic.P256(), rand.Reader)
	if err != nil {
		return
	}
	nb, na := time.Date(1990, 1, 1, 0, 0, 0, 0, time.UTC), time.Date(2100, 1, 1, 0, 0, 0, 0, time.UTC)
	caT := &x509.Certificate{SerialNumber: big.NewInt(1), Subject: pkix.Name{CommonName: "verif harness CA"}, NotBefore: nb, NotAfter: na,
		IsCA: true, BasicConstraintsValid: true, KeyUsage: x509.KeyUsageCertSign | x509.KeyUsageDigitalSignature}
	caDER, err := x509.CreateCertificate(rand.Reader, caT, caT, &caKey.PublicKey, caKey)
	if err != nil {
		return
	}
	srvKey, _ := ecdsa.GenerateKey(elliptic.P256(), rand.Reader)
	srvT := &x509.Certificate{SerialNumber: big.NewInt(2), Subject: pkix.Name{CommonName: "model node"}, NotBefore: nb, NotAfter: na,
		KeyUsage: x509.KeyUsageDigitalSignature, ExtKeyUsage: []x509.ExtKeyUsage{x509.ExtKeyUsageServerAuth},
		IPAddresses: []net.IP{net.ParseIP("10.0.3.1"), net.ParseIP("10.0.3.2"), net.ParseIP("10.0.3.3")}}
	caCert, _ := x509.ParseCertificate(caDER)
	srvDER, err := x509.CreateCertificate(rand.Reader, srvT, caCert, &srvKey.PublicKey, caKey)
	if err != nil {
		return
	}
	dir := os.Getenv("VERIF_SCRATCH")
	if dir == "" {
		dir = os.TempDir()
	}
	pemFile := filepath.Join(dir, fmt.Sprintf("c20-ca-%d.pem", os.Getpid()))
	if ioutil.WriteFile(pemFile, pem.EncodeToMemory(&pem.Block{Type: "CERTIFICATE", Bytes: caDER}), 0600) != nil {
		return
	}
	os.Setenv("SSL_CERT_FILE", pemFile)
	os.Setenv("SSL_CERT_DIR", dir+"/no-such-dir")
	c20TLSConfig = &tls.Config{Certificates: []tls.Certificate{{Certificate: [][]byte{srvDER}, PrivateKey: srvKey}}}
}

var c20fAuthReplies = []string{"", "+OK",
	"-ERR Client sent AUTH, but no password is set",
	"-ERR AUTH <password> called without any password configured for the default user. Are you sure your configuration is correct?",
	"-WRONGPASS invalid username-password pair or user is disabled.",
	"-ERR invalid password"}

func c20fRun(t *testing.T, c c20fCase) (kind, what string) {
	names := []string{"10.0.3.1:6379", "10.0.3.2:6379", "10.0.3.3:6379"}
	pw := ""
	if c.Password {
		pw = "pw"
	}
	node := slot.SyncNode{Id: 1, Source: names[0], SourcePassword: pw, Slaves: append([]string{}, names[1:]...), SlotLeftBoundary: 0, SlotRightBoundary: 100}
	defer hook.SetDialHook(nil)
	defer ev.Watch(fmt.Sprintf("re-discovery %+v", c), 120*time.Second, c)()
	var res *slot.SyncNode
	var err error
	func() {
		defer func() {
			if x := recover(); x != nil && !strings.Contains(fmt.Sprint(x), "blocked goroutines remain") {
				kind, what = "harness-bubble", fmt.Sprint(x)
				if strings.Contains(what, "nil pointer") || strings.Contains(what, "runtime error") {
					kind, what = "crash", "re-discovery panics: "+what
				}
			}
		}()
		synctest.Test(t, func(t *testing.T) {
			masters := map[string]*msource.Master{}
			for i, n := range names {
				m := msource.New()
				m.Password = pw
				m.Role = "slave"
				if i == c.MasterNode {
					m.Role = "master"
					m.AuthReply = c.AuthReply
				}
				masters[n] = m
			}
			var conns []*memconn.Conn
			conf.Options.SourceTLSEnable = c.TLS
			defer func() { conf.Options.SourceTLSEnable = false }()
			hook.SetDialHook(func(network, addr string) (net.Conn, error, bool) {
				for _, d := range c.Down {
					if names[d] == addr {
						return nil, fmt.Errorf("dial tcp %s: connect: connection refused", addr), true
					}
				}
				cc, sc := memconn.Pair(addr)
				conns = append(conns, sc)
				for _, d := range c.Closing {
					if names[d] == addr {
						// like a TCP peer: the client's first write still succeeds, its read meets the end
						go func() {
							sc.Read(make([]byte, 4096))
							sc.Close()
						}()
						return cc, nil, true
					}
				}
				if c.TLS {
					go masters[addr].Serve(tls.Server(sc, c20TLSConfig))
				} else {
					go masters[addr].Serve(sc)
				}
				return cc, nil, true
			})
			res, err = New(node).GetSlotState()
			for _, sc := range conns {
				sc.Cut()
			}
			synctest.Wait()
		})
	}()
	if kind != "" {
		return
	}
	// a server that rejects AUTH outright (wrong password) does not let INFO through: not finding it is correct
	rejects := strings.HasPrefix(c.AuthReply, "-WRONGPASS") || c.AuthReply == "-ERR invalid password"
	masterDown := false
	for _, d := range c.Down {
		masterDown = masterDown || d == c.MasterNode
	}
	for _, d := range c.Closing {
		masterDown = masterDown || d == c.MasterNode
	}
	switch {
	case rejects:
		return "", ""
	case masterDown:
		// nobody reachable reports role:master: giving up with an error (after the retries) is the answer
		if err == nil {
			return "unreachable-master-chosen", fmt.Sprintf("the only master (%s) refuses connections and re-discovery returns %+v", names[c.MasterNode], res)
		}
		return "", ""
	case err != nil || res == nil:
		return "master-not-found", fmt.Sprintf("node %s reports role:master (its AUTH answer: %q) but re-discovery fails: %v", names[c.MasterNode], c.AuthReply, err)
	case res.Source != names[c.MasterNode]:
		return "non-master-chosen", fmt.Sprintf("chosen source %s, the master is %s", res.Source, names[c.MasterNode])
	}
	return "", ""
}

func TestVerif_C20F(t *testing.T) {
	defer ev.Flush("C20")
	log.SetLevel(log.LEVEL_NONE)
	if ev.ReplayFile() != "" {
		var c c20fCase
		if err := ev.LoadReplay(&c); err != nil {
			t.Fatal(err)
		}
		if c.AuthReply == "" && !c.Password && c.MasterNode == 0 && !c.TLS && len(c.Down) == 0 && len(c.Closing) == 0 {
			return
		}
		k, w := c20fRun(t, c)
		t.Logf("replay %+v -> %s %s", c, k, w)
		if k != "" {
			ev.Violate("C20|real-factory|"+k, w, c)
		}
		return
	}
	si, _ := ev.ShardInfo()
	if si != 0 {
		return
	}
	var n int64
	for _, pwc := range []bool{false, true} {
		for _, ar := range c20fAuthReplies {
			for mn := 0; mn < 3; mn++ {
				c := c20fCase{Password: pwc, AuthReply: ar, MasterNode: mn}
				k, w := c20fRun(t, c)
				n++
				h := ev.HashS(fmt.Sprint(c))
				ev.State(h)
				ev.Nontrivial(h)
				ev.Outcome("real-factory:" + k)
				if k != "" {
					ev.Violate("C20|real-factory|"+k, fmt.Sprintf("%s (password configured: %v)", w, pwc), c)
				}
			}
		}
	}
	// nodes that refuse connections, with and without TLS (the promoted replica must still be
	// found; when the only master is down the answer is an error after the retries, not a crash)
	if c20TLSConfig != nil {
		for _, tlsOn := range []bool{false, true} {
			for mn := 0; mn < 3; mn++ {
				for _, down := range [][]int{nil, {0}, {1}, {2}, {0, 1}, {1, 2}, {0, 1, 2}} {
					c := c20fCase{Password: true, AuthReply: "+OK", MasterNode: mn, TLS: tlsOn, Down: down}
					k, w := c20fRun(t, c)
					n++
					h := ev.HashS(fmt.Sprint(c))
					ev.State(h)
					ev.Nontrivial(h)
					ev.Outcome("real-factory-down:" + k)
					if k != "" {
						ev.Violate("C20|real-factory|"+k, fmt.Sprintf("%s (source.tls_enable=%v, nodes down: %v)", w, tlsOn, down), c)
					}
				}
			}
		}
	}
	// nodes that accept and close at once, with and without a password (AUTH is the first exchange)
	for _, pwc := range []bool{false, true} {
		for mn := 0; mn < 3; mn++ {
			for _, closing := range [][]int{{0}, {1}, {2}, {0, 1}, {1, 2}, {0, 1, 2}} {
				c := c20fCase{Password: pwc, AuthReply: "+OK", MasterNode: mn, Closing: closing}
				k, w := c20fRun(t, c)
				n++
				h := ev.HashS(fmt.Sprint(c))
				ev.State(h)
				ev.Nontrivial(h)
				ev.Outcome("real-factory-closing:" + k)
				if k != "" {
					ev.Violate("C20|real-factory|"+k, fmt.Sprintf("%s (password configured: %v, nodes that close the connection at once: %v)", w, pwc, closing), c)
				}
			}
		}
	}
	ev.Eval(n)
	ev.Trace(n)
	ev.Trans(n * 3)
}
