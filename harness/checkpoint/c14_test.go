// C14: resume picks its own source's newest checkpoint. Package checkpoint.
// Unexported identifiers used: none.
package checkpoint

import (
	"fmt"
	"net"
	"sort"
	"strconv"
	"strings"
	"testing"

	"github.com/alibaba/RedisShake/pkg/libs/log"
	utils "github.com/alibaba/RedisShake/redis-shake/common"
	"github.com/alibaba/RedisShake/verifrt/ev"
	"github.com/alibaba/RedisShake/verifrt/hook"
	"github.com/alibaba/RedisShake/verifrt/memconn"
	"github.com/alibaba/RedisShake/verifrt/mredis"
)

// model of a target state
type c14DB struct {
	Fields  map[string]string // checkpoint hash fields (nil = no checkpoint key)
	NonHash bool              // a string under the checkpoint name
	Data    bool              // an ordinary key
}

type c14State map[int]*c14DB

func (s c14State) clone() c14State {
	o := c14State{}
	for d, v := range s {
		n := &c14DB{NonHash: v.NonHash, Data: v.Data}
		if v.Fields != nil {
			n.Fields = map[string]string{}
			for k, x := range v.Fields {
				n.Fields[k] = x
			}
		}
		o[d] = n
	}
	return o
}

func (s c14State) canon() string {
	var dbs []int
	for d, v := range s {
		if v.Fields != nil || v.NonHash || v.Data {
			dbs = append(dbs, d)
		}
	}
	sort.Ints(dbs)
	var b strings.Builder
	for _, d := range dbs {
		v := s[d]
		fmt.Fprintf(&b, "db%d[", d)
		if v.Data {
			b.WriteString("data ")
		}
		if v.NonHash {
			b.WriteString("nonhash ")
		}
		var ks []string
		for k := range v.Fields {
			ks = append(ks, k)
		}
		sort.Strings(ks)
		for _, k := range ks {
			fmt.Fprintf(&b, "%s=%s ", k, v.Fields[k])
		}
		b.WriteString("]")
	}
	return b.String()
}

type c14Op struct {
	Kind    string `json:"kind"` // ckpt data clear nonhash
	Src     string `json:"src,omitempty"`
	DB      int    `json:"db"`
	Offset  int    `json:"offset,omitempty"`
	RunID   bool   `json:"runid,omitempty"`
	HasOff  bool   `json:"has_offset,omitempty"`
	Version int    `json:"version"` // -1: no version field
}

func (op c14Op) apply(s c14State) {
	d := s[op.DB]
	if d == nil {
		d = &c14DB{}
		s[op.DB] = d
	}
	switch op.Kind {
	case "data":
		d.Data = true
	case "clear":
		delete(s, op.DB)
	case "nonhash":
		d.Fields = nil
		d.NonHash = true
	case "ckpt":
		if d.NonHash {
			return // HSET on a string fails: state unchanged
		}
		if d.Fields == nil {
			d.Fields = map[string]string{}
		}
		if op.RunID {
			d.Fields[op.Src+"-runid"] = "run-" + op.Src + "-" + strconv.Itoa(op.DB)
		}
		if op.HasOff {
			d.Fields[op.Src+"-offset"] = strconv.Itoa(op.Offset)
		}
		if op.Version >= 0 {
			d.Fields[op.Src+"-version"] = strconv.Itoa(op.Version)
		}
	}
}

func c14Alphabet(ours string, others []string, reduced bool) []c14Op {
	var ops []c14Op
	dbs := []int{0, 1, 12} // a two-digit database number among them
	for _, src := range append([]string{ours}, others...) {
		for _, db := range dbs {
			for _, off := range []int{7, 9} {
				ops = append(ops, c14Op{Kind: "ckpt", Src: src, DB: db, Offset: off, RunID: true, HasOff: true, Version: 1})
				if reduced {
					continue
				}
				ops = append(ops, c14Op{Kind: "ckpt", Src: src, DB: db, Offset: off, RunID: true, HasOff: true, Version: 0})
				ops = append(ops, c14Op{Kind: "ckpt", Src: src, DB: db, Offset: off, RunID: true, HasOff: true, Version: -1})
				ops = append(ops, c14Op{Kind: "ckpt", Src: src, DB: db, Offset: off, HasOff: true, Version: 1})
				ops = append(ops, c14Op{Kind: "ckpt", Src: src, DB: db, Offset: off, HasOff: true, Version: -1})
			}
			if !reduced {
				ops = append(ops, c14Op{Kind: "ckpt", Src: src, DB: db, RunID: true, Version: -1})
			}
		}
	}
	for _, db := range dbs {
		ops = append(ops, c14Op{Kind: "data", DB: db, Version: -1})
		if !reduced {
			ops = append(ops, c14Op{Kind: "clear", DB: db, Version: -1}, c14Op{Kind: "nonhash", DB: db, Version: -1})
		}
	}
	return ops
}

type c14Case struct {
	Ours string  `json:"ours"`
	Ops  []c14Op `json:"ops"`
	// RefuseCmd / RefuseDB: the target answers this lookup command ("exists", "hgetall") in that
	// database with -LOADING (a target restarted together with the tool): the loader cannot know the
	// newest checkpoint, so it must report an error, never go on with what it saw elsewhere
	RefuseCmd string `json:"refuse_cmd,omitempty"`
	RefuseDB  int    `json:"refuse_db,omitempty"`
}

// c14Eval builds the state in a model Redis, runs the real LoadCheckpoint and judges it.
func c14Eval(c c14Case) string {
	st := c14State{}
	for _, op := range c.Ops {
		op.apply(st)
	}
	opts := mredis.Options{}
	if c.RefuseCmd != "" {
		opts.ReplyHook = func(cmd mredis.Cmd) []byte {
			if cmd.Name() == c.RefuseCmd && cmd.DB == c.RefuseDB {
				return []byte("-LOADING Redis is loading the dataset in memory\r\n")
			}
			return nil
		}
	}
	srv := mredis.New(opts)
	for d, v := range st {
		if v.Data {
			srv.Put(d, "data", &mredis.Entry{Kind: "string", Str: []byte("x")})
		}
		if v.NonHash {
			srv.Put(d, utils.CheckpointKey, &mredis.Entry{Kind: "string", Str: []byte("x")})
		} else if v.Fields != nil {
			e := &mredis.Entry{Kind: "hash", Hash: map[string][]byte{}}
			var ks []string
			for k := range v.Fields {
				ks = append(ks, k)
			}
			sort.Strings(ks)
			for _, k := range ks {
				e.Hash[k] = []byte(v.Fields[k])
				e.HashOrd = append(e.HashOrd, k)
			}
			srv.Put(d, utils.CheckpointKey, e)
		}
	}
	// LoadCheckpoint does not close the connection it opens: cut it afterwards so that the model
	// server's goroutine ends
	var opened []*memconn.Conn
	hook.SetDialHook(func(network, addr string) (net.Conn, error, bool) {
		cc, sc := memconn.Pair("target")
		opened = append(opened, sc)
		go srv.Serve(sc)
		return cc, nil, true
	})
	defer func() {
		hook.SetDialHook(nil)
		for _, sc := range opened {
			sc.Cut()
		}
	}()
	var runid string
	var offset int64
	var db int
	var err error
	aborted := true
	done := make(chan struct{})
	go func() {
		defer close(done)
		runid, offset, db, err = LoadCheckpoint(0, c.Ours, []string{"target:6379"}, "auth", "", utils.CheckpointKey, false, false)
		aborted = false
	}()
	<-done
	bad := func(kind, what string) string {
		ev.Violate("C14|"+kind, fmt.Sprintf("%s (our source %q, target state %s; returned runid=%q offset=%d db=%d err=%v)", what, c.Ours, st.canon(), runid, offset, db, err), c)
		return kind
	}
	if aborted {
		return bad("abort", "LoadCheckpoint aborts the tool")
	}
	if c.RefuseCmd != "" {
		v := st[c.RefuseDB]
		asked := v != nil && (v.Data || v.NonHash || v.Fields != nil)
		if c.RefuseCmd == "hgetall" {
			asked = v != nil && (v.NonHash || v.Fields != nil)
		}
		if asked && err == nil {
			return bad("refused-lookup-ignored", fmt.Sprintf("the target refused %s in db %d with -LOADING and LoadCheckpoint reports success", strings.ToUpper(c.RefuseCmd), c.RefuseDB))
		}
		if asked {
			return "refused"
		}
	}
	// reference
	type cand struct {
		db      int
		runid   string
		version int
	}
	newest := int64(-1)
	var cands []cand
	nonhash := false
	for d, v := range st {
		if v.NonHash {
			nonhash = true
		}
		if v.Fields == nil {
			continue
		}
		o, ok := v.Fields[c.Ours+"-offset"]
		if !ok {
			continue
		}
		off, _ := strconv.ParseInt(o, 10, 64)
		cd := cand{db: d, runid: "?", version: 0}
		if r, ok := v.Fields[c.Ours+"-runid"]; ok {
			cd.runid = r
		}
		if x, ok := v.Fields[c.Ours+"-version"]; ok {
			cd.version, _ = strconv.Atoi(x)
		}
		if off > newest {
			newest = off
			cands = []cand{cd}
		} else if off == newest {
			cands = append(cands, cd)
		}
	}
	if nonhash {
		// a foreign value under the checkpoint name: the statement is silent; an error or any of the
		// outcomes below is accepted
		if err != nil {
			return "nonhash-error"
		}
	}
	if newest == -1 {
		if err != nil {
			return bad("none-error", "no checkpoint of our source exists but an error is returned")
		}
		if offset != -1 {
			return bad("none-offset", "no checkpoint of our source exists but an offset is reported")
		}
	} else {
		matched := false
		var chosen cand
		for _, cd := range cands {
			if cd.version < utils.FcvCheckpoint.FeatureCompatibleVersion {
				if err != nil {
					matched, chosen = true, cd
				}
				continue
			}
			wantDB := cd.db
			if cd.runid == "?" {
				wantDB = -1
			}
			if err == nil && offset == newest && runid == cd.runid && db == wantDB {
				matched, chosen = true, cd
			}
		}
		if !matched {
			var want []string
			for _, cd := range cands {
				if cd.version < utils.FcvCheckpoint.FeatureCompatibleVersion {
					want = append(want, fmt.Sprintf("refuse (db %d holds version %d)", cd.db, cd.version))
				} else {
					want = append(want, fmt.Sprintf("runid=%s offset=%d db=%d", cd.runid, newest, cd.db))
				}
			}
			kind := "wrong-checkpoint"
			if err != nil {
				kind = "unexpected-error"
			} else if offset != newest {
				kind = "wrong-offset"
			}
			return bad(kind, "the newest checkpoint of our source is not the one returned; acceptable: "+strings.Join(want, " | "))
		}
		if err != nil {
			return "refused-old-version"
		}
		_ = chosen
	}
	if err != nil {
		return "error"
	}
	// afterwards
	for d, v := range st {
		e := srv.Lookup(d, utils.CheckpointKey)
		after := map[string]string{}
		if e != nil && e.Kind == "hash" {
			for k, x := range e.Hash {
				after[k] = string(x)
			}
		}
		for k, x := range v.Fields {
			mine := k == c.Ours+"-runid" || k == c.Ours+"-offset"
			got, ok := after[k]
			switch {
			case !mine || d == db:
				if !ok || got != x {
					if !mine {
						return bad("foreign-field-touched", fmt.Sprintf("field %s of db %d was removed or changed", k, d))
					}
					return bad("chosen-checkpoint-touched", fmt.Sprintf("field %s of the chosen db %d was removed or changed", k, d))
				}
			default:
				if ok {
					return bad("stale-not-removed", fmt.Sprintf("stale field %s of db %d is still there (chosen db %d)", k, d, db))
				}
			}
		}
		if v.Data && srv.Lookup(d, "data") == nil {
			return bad("data-touched", "a data key disappeared")
		}
	}
	if newest == -1 {
		return "none"
	}
	if runid == "?" {
		return "unknown-runid"
	}
	return "resumed"
}

func TestVerif_C14(t *testing.T) {
	defer ev.Flush("C14")
	log.SetLevel(log.LEVEL_NONE)
	hook.SetExitHook(func(int) {})
	if ev.ReplayFile() != "" {
		var c c14Case
		if err := ev.LoadReplay(&c); err != nil {
			t.Fatal(err)
		}
		t.Logf("replay -> %s", c14Eval(c))
		return
	}
	depth := 3
	configs := []struct {
		ours   string
		others []string
	}{{"h:1", []string{"h:10", "xh:1"}}, {"offset-host:1", []string{"h:1"}}, {"10.0.0.1:6379", []string{"10.0.0.1:63790"}}}
	var evals, trans int64
	for ci, cf := range configs {
		sigma := c14Alphabet(cf.ours, cf.others, false)
		if ci > 0 {
			depth = 2
		}
		ev.Bound(fmt.Sprintf("alphabet_%s", cf.ours), len(sigma))
		ev.Bound(fmt.Sprintf("depth_%s", cf.ours), depth)
		seen := map[string]bool{}
		type node struct {
			st   c14State
			path []c14Op
		}
		frontier := []node{{c14State{}, nil}}
		seen[c14State{}.canon()] = true
		eval := func(n node) {
			key := cf.ours + "|" + n.st.canon()
			h := ev.HashS(key)
			if !ev.Mine(int64(h >> 1)) {
				return
			}
			o := c14Eval(c14Case{Ours: cf.ours, Ops: n.path})
			evals++
			if len(n.path) <= 2 {
				// every state reachable with at most two writes, with one lookup refused in one database
				for db := range n.st {
					for _, cmd := range []string{"exists", "hgetall"} {
						ev.Outcome(c14Eval(c14Case{Ours: cf.ours, Ops: n.path, RefuseCmd: cmd, RefuseDB: db}))
						evals++
					}
				}
			}
			ev.State(h)
			ev.Outcome(o)
			if o != "none" {
				ev.Nontrivial(h)
			}
			if evals%997 == 1 {
				ev.Sample(o, map[string]interface{}{"ours": cf.ours, "state": n.st.canon()})
			}
		}
		eval(frontier[0])
		for d := 0; d < depth; d++ {
			var next []node
			for _, n := range frontier {
				for _, op := range sigma {
					ns := n.st.clone()
					op.apply(ns)
					trans++
					k := ns.canon()
					if seen[k] {
						continue
					}
					seen[k] = true
					nn := node{ns, append(append([]c14Op{}, n.path...), op)}
					eval(nn)
					if d+1 < depth {
						next = append(next, nn)
					}
				}
				if ev.OverBudget() {
					ev.Cap("time budget")
					break
				}
			}
			frontier = next
		}
		ev.Count("distinct_states_"+cf.ours, int64(len(seen)))
	}
	// depth 4 over the reduced alphabet (thorough)
	if ev.Thorough() {
		sigma := c14Alphabet("h:1", []string{"h:10"}, true)
		ev.Bound("alphabet_reduced_depth4", len(sigma))
		seen := map[string]bool{}
		var rec func(st c14State, path []c14Op, d int)
		rec = func(st c14State, path []c14Op, d int) {
			k := st.canon() + "#" + strconv.Itoa(d)
			if seen[k] {
				return
			}
			seen[k] = true
			h := ev.HashS("h:1|" + st.canon())
			if ev.Mine(int64(h>>1)) && ev.State(h) {
				o := c14Eval(c14Case{Ours: "h:1", Ops: path})
				evals++
				ev.Outcome(o)
				ev.Nontrivial(h)
			}
			if d == 4 {
				return
			}
			for _, op := range sigma {
				ns := st.clone()
				op.apply(ns)
				trans++
				rec(ns, append(append([]c14Op{}, path...), op), d+1)
			}
		}
		rec(c14State{}, nil, 0)
	}
	ev.Eval(evals)
	ev.Trace(evals)
	ev.Trans(trans)
}
