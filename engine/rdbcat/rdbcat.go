// Package rdbcat is the catalogue of RDB strings, values and file items (the alphabets Σ) that
// the RDB related checks enumerate. Everything is built with rdbgen. Simplest first.
package rdbcat

import (
	"fmt"
	"bytes"
	"math"

	"github.com/alibaba/RedisShake/verifrt/rdbgen"
)

func rep(b byte, n int) []byte { return bytes.Repeat([]byte{b}, n) }

func pattern(n int) []byte {
	out := make([]byte, n)
	for i := range out {
		out[i] = byte('a' + i%23)
	}
	return out
}

// Members is the pool of member strings: every string storage form.
func Members() []rdbgen.Str {
	return []rdbgen.Str{
		rdbgen.RawStr([]byte("a"), rdbgen.LCanon),
		rdbgen.RawStr([]byte(""), rdbgen.LCanon),
		rdbgen.IntStr(-5, 8),
		rdbgen.IntStr(300, 16),
		rdbgen.IntStr(-70000, 32),
		rdbgen.LZFStr([]byte("hello hello hello"), "lit", 0, 0),
		rdbgen.LZFStr(bytes.Repeat([]byte("ab"), 10), "ref", 2, 8),
		rdbgen.LZFStr(rep('x', 300), "ref", 1, 264),
		rdbgen.RawStr([]byte("\x00\xff\r\n"), rdbgen.L14),
	}
}

// Strings: member pool plus the length-form boundaries and wide forms.
func Strings() []rdbgen.Str {
	out := Members()
	out = append(out,
		rdbgen.RawStr(pattern(63), rdbgen.LCanon),
		rdbgen.RawStr(pattern(64), rdbgen.LCanon),
		rdbgen.RawStr(pattern(16383), rdbgen.LCanon),
		rdbgen.RawStr(pattern(16384), rdbgen.LCanon),
		rdbgen.RawStr([]byte("wide32"), rdbgen.L32),
		rdbgen.IntStr(127, 8), rdbgen.IntStr(-128, 8), rdbgen.IntStr(32767, 16), rdbgen.IntStr(-32768, 16),
		rdbgen.IntStr(2147483647, 32), rdbgen.IntStr(-2147483648, 32), rdbgen.IntStr(0, 8),
		rdbgen.LZFStr(append(rep('q', 40), rep('q', 5)...), "ref", 1, 9),
	)
	return out
}

func pick(pool []rdbgen.Str, idx ...int) []rdbgen.Str {
	var out []rdbgen.Str
	for _, i := range idx {
		out = append(out, pool[i%len(pool)])
	}
	return out
}

func nStr(n int, prefix string) []rdbgen.Str {
	var out []rdbgen.Str
	for i := 0; i < n; i++ {
		s := prefix + string([]byte{byte('0' + i/100%10), byte('0' + i/10%10), byte('0' + i%10)})
		out = append(out, rdbgen.RawStr([]byte(s), rdbgen.LCanon))
	}
	return out
}

func scores(n int) []float64 {
	base := []float64{1.5, -2, 0, math.Inf(1), math.Inf(-1), 1e100, 3, -0.001}
	var out []float64
	for i := 0; i < n; i++ {
		out = append(out, base[i%len(base)]+float64(i/len(base)))
	}
	return out
}

// AllZE is one ziplist entry of each of the eleven encodings (+ a long one that forces the
// 5-byte prevlen on its successor).
func AllZE() []rdbgen.ZE {
	return []rdbgen.ZE{
		{Enc: "s6", S: []byte("abc")},
		{Enc: "s14", S: pattern(70)},
		{Enc: "s32", S: pattern(5)},
		{Enc: "i4", I: 0}, {Enc: "i4", I: 12},
		{Enc: "i8", I: -100},
		{Enc: "i16", I: -30000},
		{Enc: "i24", I: -8000000}, {Enc: "i24", I: 8388607},
		{Enc: "i32", I: -2000000000},
		{Enc: "i64", I: -9000000000000000000},
		{Enc: "s14", S: pattern(300)},
		{Enc: "s6", S: []byte("")},
		{Enc: "i8", I: 13},
	}
}

func id16(b byte) [16]byte {
	var x [16]byte
	for i := range x {
		x[i] = b + byte(i)
	}
	return x
}

func streamGroups(g, pel, cons int) []rdbgen.StreamGroup {
	var out []rdbgen.StreamGroup
	for i := 0; i < g; i++ {
		sg := rdbgen.StreamGroup{Name: []byte{'g', byte('0' + i)}, LastMs: 1 << 41, LastSeq: uint64(i)}
		for p := 0; p < pel; p++ {
			sg.PEL = append(sg.PEL, rdbgen.StreamPEL{ID: id16(byte(0xf0 + p)), Seen: 0xfffefdfcfbfaf9f8, Count: uint64(p + 1)})
		}
		for c := 0; c < cons; c++ {
			sc := rdbgen.StreamConsumer{Name: []byte{'c', byte('0' + c)}, Seen: 0xfffffffffffffffe}
			for p := 0; p < pel && p <= c; p++ {
				sc.PEL = append(sc.PEL, id16(byte(0xf0+p)))
			}
			sg.Consumers = append(sg.Consumers, sc)
		}
		out = append(out, sg)
	}
	return out
}

// Values returns the value catalogue. level 0: one representative per type (reduced),
// 1: full.
func Values(level int) []*rdbgen.Value {
	m := Members()
	var out []*rdbgen.Value
	add := func(v *rdbgen.Value, name string) {
		v.Name = v.Name + "/" + name
		out = append(out, v)
	}
	// representatives
	add(rdbgen.StringVal(m[0]), "a")
	add(rdbgen.ListVal(pick(m, 0, 2), rdbgen.LCanon), "2")
	add(rdbgen.HashVal(pick(m, 0, 3, 5, 1), rdbgen.LCanon), "2")
	add(rdbgen.ZSetVal(pick(m, 0, 5), []float64{1.5, math.Inf(-1)}, true), "2")
	add(rdbgen.ListZiplistVal(AllZE(), false, false), "all-encodings")
	add(rdbgen.IntsetVal([]int64{-3, 7, 300}, 2, false), "3")
	add(rdbgen.QuicklistVal([][]rdbgen.ZE{AllZE()[:3], AllZE()[3:6]}, false), "2nodes")
	add(rdbgen.StreamVal([][2][]byte{{rep(1, 16), pattern(40)}}, 3, 1<<40, 2, streamGroups(1, 1, 1)), "1pack-1group")
	if level == 0 {
		return out
	}
	for _, s := range Strings()[1:] {
		add(rdbgen.StringVal(s), s.Form)
	}
	// sequences: sizes 0,1,2 over the member pool (every member form appears), then the
	// batch-size boundaries
	for _, mk := range []func([]rdbgen.Str, int) *rdbgen.Value{rdbgen.ListVal, rdbgen.SetVal} {
		add(mk(nil, rdbgen.LCanon), "0")
		for i := range m {
			add(mk(pick(m, i), rdbgen.LCanon), "1")
			add(mk(pick(m, i, i+1), rdbgen.LCanon), "2")
		}
		add(mk(pick(m, 0, 2), rdbgen.L14), "2-wide14")
		add(mk(pick(m, 0, 2), rdbgen.L32), "2-wide32")
		for _, n := range []int{99, 100, 101} {
			add(mk(nStr(n, "e"), rdbgen.LCanon), "n")
		}
	}
	add(rdbgen.HashVal(nil, rdbgen.LCanon), "0")
	for i := range m {
		add(rdbgen.HashVal(pick(m, i, i+1), rdbgen.LCanon), "1")
		add(rdbgen.HashVal(pick(m, i, i+1, i+2, i+3), rdbgen.LCanon), "2")
	}
	add(rdbgen.HashVal(pick(m, 0, 2), rdbgen.L32), "1-wide32")
	for _, n := range []int{99, 100, 101} {
		add(rdbgen.HashVal(nStr(2*n, "h"), rdbgen.LCanon), "n")
	}
	for _, bin := range []bool{false, true} {
		add(rdbgen.ZSetVal(nil, nil, bin), "0")
		for i := range m {
			add(rdbgen.ZSetVal(pick(m, i), scores(8)[i%8:i%8+1], bin), "1")
		}
		add(rdbgen.ZSetVal(pick(m, 0, 2, 5), []float64{math.NaN(), math.Inf(1), math.Inf(-1)}, bin), "nan-inf")
		add(rdbgen.ZSetVal(pick(m, 0, 2, 5), []float64{math.Copysign(0, -1), 1e-300, 123456789.125}, bin), "negzero")
		for _, n := range []int{99, 100, 101} {
			add(rdbgen.ZSetVal(nStr(n, "z"), scores(n), bin), "n")
		}
	}
	// zipmap
	add(rdbgen.ZipmapVal(nil, 0), "0")
	add(rdbgen.ZipmapVal([][2][]byte{{[]byte("f"), []byte("v")}}, 0), "1")
	add(rdbgen.ZipmapVal([][2][]byte{{[]byte("f"), []byte("v")}, {[]byte(""), []byte("")}}, 3), "2-free3")
	add(rdbgen.ZipmapVal([][2][]byte{{[]byte("f"), pattern(300)}, {pattern(254), []byte("x")}}, 1), "biglen")
	add(rdbgen.ZipmapVal([][2][]byte{{pattern(253), pattern(253)}, {[]byte("g"), pattern(252)}}, 0), "len253")
	// ziplists
	ze := AllZE()
	add(rdbgen.ListZiplistVal(nil, false, false), "0")
	for i := range ze {
		add(rdbgen.ListZiplistVal(ze[i:i+1], false, false), "1-"+ze[i].Enc)
	}
	add(rdbgen.ListZiplistVal(ze, true, false), "wideprev")
	add(rdbgen.ListZiplistVal(ze, false, true), "lzf")
	add(rdbgen.HashZiplistVal(nil, false, false), "0")
	add(rdbgen.HashZiplistVal(ze[:2], false, false), "1")
	add(rdbgen.HashZiplistVal(ze, false, false), "all")
	add(rdbgen.HashZiplistVal(ze, true, true), "all-wide-lzf")
	zs := []rdbgen.ZE{{Enc: "s6", S: []byte("m1")}, {Enc: "s6", S: []byte("1.5")}, {Enc: "i8", I: 77}, {Enc: "i4", I: 3},
		{Enc: "s6", S: []byte("")}, {Enc: "i16", I: -300}, {Enc: "s6", S: []byte("mi")}, {Enc: "s6", S: []byte("inf")},
		{Enc: "s6", S: []byte("mn")}, {Enc: "s6", S: []byte("-inf")}, {Enc: "s6", S: []byte("me")}, {Enc: "s6", S: []byte("1e+100")}}
	add(rdbgen.ZSetZiplistVal(nil, false, false), "0")
	add(rdbgen.ZSetZiplistVal(zs[:2], false, false), "1")
	add(rdbgen.ZSetZiplistVal(zs, false, false), "6")
	add(rdbgen.ZSetZiplistVal(zs, true, true), "6-wide-lzf")
	// score texts as Redis writes them (%.17g): negative zero, integers, exponents
	zt := []rdbgen.ZE{{Enc: "s6", S: []byte("nz")}, {Enc: "s6", S: []byte("-0")}, {Enc: "s6", S: []byte("z")}, {Enc: "i4", I: 0},
		{Enc: "s6", S: []byte("big")}, {Enc: "s6", S: []byte("9007199254740993")}, {Enc: "s6", S: []byte("tiny")}, {Enc: "s6", S: []byte("4.9406564584124654e-324")},
		{Enc: "s6", S: []byte("neg")}, {Enc: "i64", I: -9007199254740993}, {Enc: "s6", S: []byte("frac")}, {Enc: "s6", S: []byte("-0.10000000000000001")}}
	add(rdbgen.ZSetZiplistVal(zt, false, false), "score-texts")
	// intsets
	add(rdbgen.IntsetVal(nil, 2, false), "0")
	add(rdbgen.IntsetVal([]int64{-32768, -1, 0, 32767}, 2, false), "4")
	add(rdbgen.IntsetVal([]int64{-2147483648, -40000, 5, 2147483647}, 4, false), "4")
	add(rdbgen.IntsetVal([]int64{-9223372036854775808, -5000000000, 5, 9223372036854775807}, 8, false), "4")
	add(rdbgen.IntsetVal([]int64{1, 2, 3, 4, 5, 6, 7, 8, 9, 10, 11, 12}, 8, true), "12-lzf")
	// quicklists
	add(rdbgen.QuicklistVal(nil, false), "0")
	add(rdbgen.QuicklistVal([][]rdbgen.ZE{ze}, false), "1")
	add(rdbgen.QuicklistVal([][]rdbgen.ZE{ze[:1], nil, ze[1:]}, true), "3-lzf-emptynode")
	// several LZF-compressed strings inside ONE value, later ones no longer than earlier ones
	// (a decompression buffer reused within the value would overwrite what was handed out)
	lz := func(ch byte, n int) rdbgen.Str { return rdbgen.LZFStr(rep(ch, n), "ref", 1, 264) }
	add(rdbgen.ListVal([]rdbgen.Str{lz('a', 90), lz('b', 80), lz('c', 80), lz('d', 20)}, rdbgen.LCanon), "4-lzf-elements")
	add(rdbgen.SetVal([]rdbgen.Str{lz('s', 70), lz('t', 60)}, rdbgen.LCanon), "2-lzf-members")
	add(rdbgen.HashVal([]rdbgen.Str{lz('f', 64), lz('v', 64), lz('g', 50), lz('w', 40)}, rdbgen.LCanon), "2-lzf-pairs")
	add(rdbgen.ZSetVal([]rdbgen.Str{lz('m', 66), lz('n', 55)}, []float64{1, 2}, true), "2-lzf-members")
	longZE := func(ch byte, n int) []rdbgen.ZE {
		return []rdbgen.ZE{{Enc: "s14", S: rep(ch, n)}, {Enc: "s6", S: []byte{ch}}}
	}
	add(rdbgen.QuicklistVal([][]rdbgen.ZE{longZE('x', 200), longZE('y', 180), longZE('z', 100)}, true), "3-lzf-nodes")
	// containers of 16 KiB and more: their length is read in the 32-bit form, which leaves
	// non-zero bytes in whatever scratch space the reader keeps; small positive integers of every
	// width follow inside the same blob and in the next node (seed C02q: stale top byte of a
	// 24-bit integer after a large node)
	posInts := []rdbgen.ZE{
		{Enc: "i16", I: 300}, {Enc: "i24", I: 70000}, {Enc: "i24", I: 32768}, {Enc: "i32", I: 100000000},
		{Enc: "i64", I: 5000000000}, {Enc: "i8", I: 100}, {Enc: "i4", I: 7}, {Enc: "i24", I: -70000},
	}
	bigNode := append([]rdbgen.ZE{{Enc: "s32", S: pattern(17000)}}, posInts...)
	add(rdbgen.QuicklistVal([][]rdbgen.ZE{bigNode, append([]rdbgen.ZE{{Enc: "s6", S: []byte("n2")}}, posInts...)}, false), "16k-node-then-ints")
	add(rdbgen.ListZiplistVal(bigNode, false, false), "16k-ints")
	add(rdbgen.HashZiplistVal(append([]rdbgen.ZE{{Enc: "s6", S: []byte("f0")}}, bigNode...)[:8], false, false), "16k-ints")
	// streams
	for packs := 0; packs <= 2; packs++ {
		var pk [][2][]byte
		for i := 0; i < packs; i++ {
			pk = append(pk, [2][]byte{rep(byte(i+1), 16), pattern(30 + 300*i)})
		}
		for g := 0; g <= 2; g++ {
			for pel := 0; pel <= 2; pel++ {
				for cons := 0; cons <= 2; cons++ {
					if g == 0 && (pel > 0 || cons > 0) {
						continue
					}
					add(rdbgen.StreamVal(pk, uint64(packs*3), 1<<40+uint64(packs), 1<<33, streamGroups(g, pel, cons)), "stream")
				}
			}
		}
	}
	return out
}

// Opts returns the key prefix options: expiry x idle x freq.
func Opts(level int) []rdbgen.KeyOpts {
	out := []rdbgen.KeyOpts{{}}
	out = append(out,
		rdbgen.KeyOpts{ExpKind: "ms", ExpAt: 4102444800123},
		rdbgen.KeyOpts{ExpKind: "s", ExpAt: 4102444800},
		rdbgen.KeyOpts{HasIdle: true, Idle: 77},
		rdbgen.KeyOpts{HasFreq: true, Freq: 200},
	)
	if level == 0 {
		return out
	}
	out = append(out,
		rdbgen.KeyOpts{ExpKind: "ms", ExpAt: 1}, // long past
		rdbgen.KeyOpts{ExpKind: "ms", ExpAt: 4102444800123, HasIdle: true, Idle: 70000},
		rdbgen.KeyOpts{ExpKind: "s", ExpAt: 4102444800, HasFreq: true, Freq: 255},
		rdbgen.KeyOpts{HasIdle: true, Idle: 0, HasFreq: true, Freq: 1},
		rdbgen.KeyOpts{ExpKind: "ms", ExpAt: 4102444800123, HasIdle: true, Idle: 16384, HasFreq: true, Freq: 9},
	)
	return out
}

// Keys returns key name forms.
func Keys(level int) []rdbgen.Str {
	out := []rdbgen.Str{rdbgen.RawStr([]byte("k"), rdbgen.LCanon)}
	if level == 0 {
		return out
	}
	return append(out,
		rdbgen.RawStr(pattern(64), rdbgen.LCanon),
		rdbgen.IntStr(12345, 16),
		rdbgen.LZFStr(bytes.Repeat([]byte("key:"), 8), "ref", 4, 8),
		rdbgen.RawStr([]byte(""), rdbgen.LCanon),
		rdbgen.RawStr([]byte("k\x00\xff{t}"), rdbgen.L32),
	)
}

// MetaItems: everything that is not a key record.
func MetaItems(level int) []rdbgen.Item {
	out := []rdbgen.Item{
		rdbgen.SelectDB(1, rdbgen.LCanon),
		rdbgen.Aux(rdbgen.RawStr([]byte("redis-ver"), rdbgen.LCanon), rdbgen.RawStr([]byte("5.0.7"), rdbgen.LCanon)),
		rdbgen.Aux(rdbgen.RawStr([]byte("lua"), rdbgen.LCanon), rdbgen.RawStr([]byte("return 1"), rdbgen.LCanon)),
		rdbgen.ResizeDB(3, 1, rdbgen.LCanon),
		rdbgen.ModuleAux(0x1234567890abcdef, []string{"uint", "string"}),
	}
	if level == 0 {
		return out
	}
	for _, n := range []uint32{0, 63, 64, 16383, 16384} {
		out = append(out, rdbgen.SelectDB(n, rdbgen.LCanon))
	}
	out = append(out, rdbgen.SelectDB(5, rdbgen.L14), rdbgen.SelectDB(5, rdbgen.L32), rdbgen.SelectDB(0, rdbgen.L32))
	out = append(out,
		rdbgen.Aux(rdbgen.RawStr([]byte("redis-bits"), rdbgen.LCanon), rdbgen.IntStr(64, 8)),
		rdbgen.Aux(rdbgen.RawStr([]byte("ctime"), rdbgen.LCanon), rdbgen.IntStr(1600000000, 32)),
		rdbgen.Aux(rdbgen.RawStr([]byte("lua"), rdbgen.LCanon), rdbgen.LZFStr(bytes.Repeat([]byte("return redis.call('get',KEYS[1]) "), 3), "lit", 0, 0)),
		rdbgen.Aux(rdbgen.RawStr([]byte("luax"), rdbgen.LCanon), rdbgen.RawStr([]byte("not a script"), rdbgen.LCanon)),
		rdbgen.ResizeDB(70000, 100, rdbgen.LCanon),
		rdbgen.ResizeDB(3, 1, rdbgen.L32),
	)
	for _, ops := range [][]string{{}, {"sint"}, {"uint"}, {"uint-small"}, {"float"}, {"double"}, {"string"}, {"sint", "uint", "float", "double", "string"}} {
		out = append(out, rdbgen.ModuleAux(0x1234567890abcdef, ops))
	}
	return out
}

// Items: the full alphabet (level 1) or the reduced one (level 0).
func Items(level int) []rdbgen.Item {
	out := MetaItems(level)
	vals := Values(level)
	keys := Keys(level)
	for oi, o := range Opts(level) {
		for vi, v := range vals {
			// all values with no options; with options, all values at level 1
			if level == 0 && oi > 0 && vi > 1 {
				continue
			}
			out = append(out, rdbgen.Key(keys[0], v, o))
		}
	}
	for _, k := range keys[1:] {
		out = append(out, rdbgen.Key(k, vals[0], rdbgen.KeyOpts{}))
		out = append(out, rdbgen.Key(k, vals[2], rdbgen.KeyOpts{ExpKind: "ms", ExpAt: 4102444800123}))
	}
	return out
}

// BatchValues are collections sized around multiples of the 100-command flush batch of the
// element-by-element restore routes.
func BatchValues() []*rdbgen.Value {
	var out []*rdbgen.Value
	add := func(v *rdbgen.Value, name string) {
		v.Name = v.Name + "/" + name
		out = append(out, v)
	}
	for _, n := range []int{200, 201} {
		add(rdbgen.ListVal(nStr(n, "e"), rdbgen.LCanon), "batch")
		add(rdbgen.SetVal(nStr(n, "e"), rdbgen.LCanon), "batch")
		add(rdbgen.HashVal(nStr(2*n, "h"), rdbgen.LCanon), "batch")
		add(rdbgen.ZSetVal(nStr(n, "z"), scores(n), true), "batch")
	}
	zes := func(n int) []rdbgen.ZE {
		var es []rdbgen.ZE
		for i := 0; i < n; i++ {
			if i%3 == 0 {
				es = append(es, rdbgen.ZE{Enc: "i16", I: int64(1000 + i)})
			} else {
				es = append(es, rdbgen.ZE{Enc: "s6", S: []byte("m" + string([]byte{byte('0' + i/100%10), byte('0' + i/10%10), byte('0' + i%10)}))})
			}
		}
		return es
	}
	zsetZes := func(n int) []rdbgen.ZE {
		var es []rdbgen.ZE
		for i := 0; i < n; i++ {
			es = append(es, rdbgen.ZE{Enc: "s6", S: []byte("m" + string([]byte{byte('0' + i/100%10), byte('0' + i/10%10), byte('0' + i%10)}))})
			es = append(es, rdbgen.ZE{Enc: "i16", I: int64(i)})
		}
		return es
	}
	for _, n := range []int{99, 100, 101, 201} {
		add(rdbgen.ListZiplistVal(zes(n), false, false), "batch")
		add(rdbgen.HashZiplistVal(zes(2*n), false, false), "batch")
		add(rdbgen.ZSetZiplistVal(zsetZes(n), false, false), "batch")
		var ints []int64
		for i := 0; i < n; i++ {
			ints = append(ints, int64(i*7-300))
		}
		add(rdbgen.IntsetVal(ints, 2, false), "batch")
		add(rdbgen.QuicklistVal([][]rdbgen.ZE{zes(n)}, false), "batch-1node")
		add(rdbgen.QuicklistVal([][]rdbgen.ZE{zes(60), zes(n - 60)}, false), "batch-2nodes")
	}
	var pairs [][2][]byte
	for i := 0; i < 101; i++ {
		pairs = append(pairs, [2][]byte{[]byte("f" + string([]byte{byte('0' + i/100%10), byte('0' + i/10%10), byte('0' + i%10)})), []byte("v")})
	}
	add(rdbgen.ZipmapVal(pairs, 0), "batch")
	return out
}


// LZFFamily: strings compressed with one back-reference of every (distance, copy length)
// relation: distance 1..12 x copy length 3..16 and the long form, i.e. non-overlapping,
// exactly adjacent, partially and fully overlapping copies, each followed by a literal tail.
func LZFFamily() []rdbgen.Str {
	var out []rdbgen.Str
	for period := 1; period <= 12; period++ {
		for _, n := range []int{3, 4, 7, 8, 9, 10, 11, 12, 13, 14, 16, 40, 264} {
			seed := make([]byte, period)
			for i := range seed {
				seed[i] = byte('A' + (i*5+period)%26)
			}
			v := make([]byte, period+n)
			for i := range v {
				v[i] = seed[i%period]
			}
			s := rdbgen.LZFStr(v, "ref", period, n)
			s.Form = "lzf-d" + string([]byte{byte('0' + period/10), byte('0' + period%10)}) + "-n"
			out = append(out, s)
		}
	}
	// far back-references: the 13-bit offset field around its byte boundary and at its end
	for _, period := range []int{255, 256, 257, 300, 511, 512, 513, 4096, 8191, 8192} {
		for _, n := range []int{3, 9, 264} {
			seed := make([]byte, period)
			for i := range seed {
				seed[i] = byte('a' + (i*7+i/26+period)%26)
			}
			v := make([]byte, period+n+5)
			for i := range v {
				v[i] = seed[i%period]
			}
			s := rdbgen.LZFStr(v, "ref", period, n)
			s.Form = fmt.Sprintf("lzf-far-d%d-n", period)
			out = append(out, s)
		}
	}
	return out
}
