// Package ev collects what one shard of a check covered and writes it where the driver
// (bin/check) picks it up. Go 1.14 dialect, standard library only.
package ev

import (
	"encoding/binary"
	"encoding/json"
	"fmt"
	"io/ioutil"
	"os"
	"runtime"
	"runtime/pprof"
	"sort"
	"strconv"
	"strings"
	"sync"
	"time"
)

type Violation struct {
	Class  string      `json:"class"`  // only the attributes that make it fail (known-findings key)
	What   string      `json:"what"`   // human readable
	Replay interface{} `json:"replay"` // self-contained case description
	Count  int64       `json:"count"`
}

type Report struct {
	Property    string                 `json:"property"`
	Tier        string                 `json:"tier"`
	Shard       string                 `json:"shard"`
	Evaluations int64                  `json:"evaluations"`
	Transitions int64                  `json:"transitions"`
	Traces      int64                  `json:"traces"`
	Outcomes    map[string]int64       `json:"outcomes"`
	Counters    map[string]int64       `json:"counters"`
	Samples     []interface{}          `json:"samples"`
	Exhaustive  bool                   `json:"exhaustive"`
	Caps        []string               `json:"caps"`
	Bounds      map[string]interface{} `json:"bounds"`
	Violations  []*Violation           `json:"violations"`
	Notes       []string               `json:"notes"`
	WallS       float64                `json:"wall_s"`
	NStates     int                    `json:"n_states"`
	NNontrivial int                    `json:"n_nontrivial"`
	StatesAdd   int64                  `json:"states_add"`     // states distinct by construction (not hashed)
	NontrivAdd  int64                  `json:"nontrivial_add"` // non-trivial cases distinct by construction
}

var (
	mu       sync.Mutex
	R        = &Report{Outcomes: map[string]int64{}, Counters: map[string]int64{}, Bounds: map[string]interface{}{}, Exhaustive: true}
	states   = map[uint64]struct{}{}
	nontriv  = map[uint64]struct{}{}
	vio      = map[string]*Violation{}
	start    = time.Now()
	shardI   = 0
	shardN   = 1
	budget   time.Duration
	maxSamp  = 12
	sampleAt = map[string]int{}
)

func init() {
	if s := os.Getenv("VERIF_SHARD"); s != "" {
		p := strings.Split(s, "/")
		if len(p) == 2 {
			shardI, _ = strconv.Atoi(p[0])
			shardN, _ = strconv.Atoi(p[1])
			if shardN < 1 {
				shardN = 1
			}
		}
	}
	R.Shard = fmt.Sprintf("%d/%d", shardI, shardN)
	R.Tier = Tier()
	if s := os.Getenv("VERIF_BUDGET_S"); s != "" {
		f, _ := strconv.ParseFloat(s, 64)
		budget = time.Duration(f * float64(time.Second))
	}
}

// Tier is "quick" or "thorough".
func Tier() string {
	if os.Getenv("VERIF_TIER") == "thorough" {
		return "thorough"
	}
	return "quick"
}

func Thorough() bool { return Tier() == "thorough" }

// Seed only rotates enumeration orders; it never selects a subset.
func Seed() int64 {
	n, _ := strconv.ParseInt(os.Getenv("VERIF_SEED"), 10, 64)
	return n
}

// ReplayFile is the path given with --replay, or "".
func ReplayFile() string { return os.Getenv("VERIF_REPLAY") }

// LoadReplay decodes the replay file into v.
func LoadReplay(v interface{}) error {
	data, err := ioutil.ReadFile(ReplayFile())
	if err != nil {
		return err
	}
	var outer struct {
		Replay json.RawMessage `json:"replay"`
	}
	if err := json.Unmarshal(data, &outer); err != nil {
		return err
	}
	return json.Unmarshal(outer.Replay, v)
}

func ShardInfo() (int, int) { return shardI, shardN }

// Mine partitions a work index over the shards.
func Mine(k int64) bool {
	if k < 0 {
		k = -k
	}
	return int(k%int64(shardN)) == shardI
}

// OverBudget reports whether the shard's wall-clock budget is used up. Hitting it is never a
// violation: the caller stops, calls Cap and the run is reported exhaustive:false.
func OverBudget() bool {
	if budget > 0 && time.Since(start) > budget {
		return true
	}
	return overMemory()
}

var (
	memSoftKB   int64 = -1
	memChecked  time.Time
	memOver     bool
	memOverOnce sync.Once
)

// overMemory is the second half of the budget: a shard whose resident set passes
// $VERIF_MEM_SOFT_KB stops exploring (reported as a cap, exhaustive:false) instead of dying on
// its address-space limit. The resident set is sampled at most every 100 ms.
func overMemory() bool {
	mu.Lock()
	defer mu.Unlock()
	if memSoftKB < 0 {
		memSoftKB, _ = strconv.ParseInt(os.Getenv("VERIF_MEM_SOFT_KB"), 10, 64)
	}
	if memSoftKB == 0 || memOver {
		return memOver
	}
	if time.Since(memChecked) < 100*time.Millisecond {
		return false
	}
	memChecked = time.Now()
	if rss := rssKB(); rss > memSoftKB {
		memOver = true
		R.Notes = append(R.Notes, fmt.Sprintf("memory guard: resident set %d MB passed the soft limit %d MB, exploration stopped early", rss>>10, memSoftKB>>10))
		R.Caps = append(R.Caps, "memory guard")
	}
	return memOver
}

// Watch guards one case against a hang of the code under test that the harness cannot leave by
// itself (a goroutine spinning inside a synctest bubble keeps synctest.Wait from returning). If
// the returned stop function is not called within limit (real time; use a limit far above the
// normal duration of the case), the process prints "VERIF-HANG <what>", a goroutine dump, and
// exits with status 3; the driver reports that as a violation of class hang|<what>.
func Watch(what string, limit time.Duration, replay interface{}) func() {
	done := make(chan struct{})
	go func() {
		select {
		case <-done:
		case <-time.After(limit):
			data, _ := json.Marshal(replay)
			fmt.Fprintf(os.Stderr, "\nVERIF-HANG %s\nVERIF-HANG-REPLAY %s\n", what, data)
			pprof.Lookup("goroutine").WriteTo(os.Stderr, 1)
			os.Exit(3)
		}
	}()
	return func() { close(done) }
}

func rssKB() int64 {
	data, err := ioutil.ReadFile("/proc/self/statm")
	if err != nil {
		return 0
	}
	f := strings.Fields(string(data))
	if len(f) < 2 {
		return 0
	}
	pages, _ := strconv.ParseInt(f[1], 10, 64)
	return pages * int64(os.Getpagesize()) / 1024
}

func Hash(b []byte) uint64 {
	// FNV-1a 64 followed by a finaliser (splitmix) to spread low bits
	h := uint64(14695981039346656037)
	for _, c := range b {
		h ^= uint64(c)
		h *= 1099511628211
	}
	h ^= h >> 30
	h *= 0xbf58476d1ce4e5b9
	h ^= h >> 27
	h *= 0x94d049bb133111eb
	h ^= h >> 31
	return h
}

func HashS(s string) uint64 { return Hash([]byte(s)) }

func Eval(n int64) {
	mu.Lock()
	R.Evaluations += n
	mu.Unlock()
}
func Trans(n int64) {
	mu.Lock()
	R.Transitions += n
	mu.Unlock()
}
func Trace(n int64) {
	mu.Lock()
	R.Traces += n
	mu.Unlock()
}
func Count(name string, n int64) {
	mu.Lock()
	R.Counters[name] += n
	mu.Unlock()
}

// State records a distinct canonical state; returns true if new in this shard.
func State(h uint64) bool {
	mu.Lock()
	_, ok := states[h]
	if !ok {
		states[h] = struct{}{}
	}
	mu.Unlock()
	return !ok
}

// Nontrivial records one distinct non-trivial case.
func Nontrivial(h uint64) {
	mu.Lock()
	nontriv[h] = struct{}{}
	mu.Unlock()
}

// StatesAdd counts states that are distinct by construction of the enumeration (e.g. the nodes
// of the trie of all words), so that they need not be hashed.
func StatesAdd(n int64) {
	mu.Lock()
	R.StatesAdd += n
	mu.Unlock()
}

// NontrivialAdd counts non-trivial cases that are distinct by construction.
func NontrivialAdd(n int64) {
	mu.Lock()
	R.NontrivAdd += n
	mu.Unlock()
}

func Outcome(class string) {
	mu.Lock()
	R.Outcomes[class]++
	mu.Unlock()
}

// Sample keeps the first few cases of each kind, written out.
func Sample(kind string, v interface{}) {
	mu.Lock()
	if sampleAt[kind] < 3 && len(R.Samples) < maxSamp {
		sampleAt[kind]++
		R.Samples = append(R.Samples, map[string]interface{}{"kind": kind, "case": v})
	}
	mu.Unlock()
}

func Bound(name string, v interface{}) {
	mu.Lock()
	R.Bounds[name] = v
	mu.Unlock()
}

func Cap(what string) {
	mu.Lock()
	R.Exhaustive = false
	for _, c := range R.Caps {
		if c == what {
			mu.Unlock()
			return
		}
	}
	R.Caps = append(R.Caps, what)
	mu.Unlock()
}

func Note(s string) {
	mu.Lock()
	R.Notes = append(R.Notes, s)
	mu.Unlock()
}

// Violate records a violation; only the first (enumeration is simplest-first) replay of each
// class is kept, later ones are counted.
func Violate(class, what string, replay interface{}) {
	mu.Lock()
	if v, ok := vio[class]; ok {
		v.Count++
	} else {
		vio[class] = &Violation{Class: class, What: what, Replay: replay, Count: 1}
	}
	mu.Unlock()
}

func NumViolations() int {
	mu.Lock()
	defer mu.Unlock()
	return len(vio)
}

func writeHashes(path string, m map[uint64]struct{}) {
	buf := make([]byte, 8*len(m))
	i := 0
	for h := range m {
		binary.LittleEndian.PutUint64(buf[i:], h)
		i += 8
	}
	ioutil.WriteFile(path, buf, 0644)
}

// Flush writes the shard report to $VERIF_OUT (+ .st / .nt hash files).
func Flush(property string) {
	mu.Lock()
	defer mu.Unlock()
	R.Property = property
	R.WallS = time.Since(start).Seconds()
	R.Violations = nil
	keys := make([]string, 0, len(vio))
	for k := range vio {
		keys = append(keys, k)
	}
	sort.Strings(keys)
	for _, k := range keys {
		R.Violations = append(R.Violations, vio[k])
	}
	R.NStates = len(states)
	R.NNontrivial = len(nontriv)
	fmt.Fprintf(os.Stderr, "RESOURCES goroutines=%d rss_mb=%d wall_s=%.1f\n", runtime.NumGoroutine(), rssKB()>>10, R.WallS)
	if os.Getenv("VERIF_DEBUG_GOROUTINES") != "" {
		pprof.Lookup("goroutine").WriteTo(os.Stderr, 1)
	}
	out := os.Getenv("VERIF_OUT")
	if out == "" {
		data, _ := json.MarshalIndent(R, "", " ")
		fmt.Println(string(data))
		return
	}
	data, _ := json.Marshal(R)
	writeHashes(out+".st", states)
	writeHashes(out+".nt", nontriv)
	ioutil.WriteFile(out+".tmp", data, 0644)
	os.Rename(out+".tmp", out)
}
