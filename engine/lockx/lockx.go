// Package lockx is a CHESS-style cooperative scheduler for code that synchronises with
// vsync.Mutex / vsync.Cond. Exactly one thread of the scenario runs at any time; Lock and
// Cond.Wait are scheduling points; at each point the explorer (a seqx.Chooser) decides which
// enabled thread continues. Switching away from a thread that could have continued is a
// preemption (counted as a deviation); a switch forced by blocking is free.
package lockx

import (
	"fmt"
	"runtime"
	"strings"
	"sync"

	"github.com/alibaba/RedisShake/verifrt/seqx"
	"github.com/alibaba/RedisShake/verifrt/vsync"
)

const (
	stRunnable = iota // wants to run (pending op, if any, is in want)
	stWaiting         // parked in Cond.Wait, not signalled yet
	stDone
)

type thread struct {
	id     int
	state  int
	want   *vsync.Mutex // mutex it is about to lock (nil: none)
	resume chan struct{}
	steps  int
}

// Exec is the record of one execution.
type Exec struct {
	Deadlock   bool
	Livelock   bool // step horizon reached
	Blocked    []string
	Steps      int
	Schedule   []int // thread id run at each scheduling point
	Preemption int
	Panics     []string
}

type Sched struct {
	ch       *seqx.Chooser
	threads  []*thread
	cur      *thread
	killed   bool
	kill     chan struct{} // closed when the execution ends: parked threads exit
	done     chan struct{}
	ex       *Exec
	maxSteps int
	nm, nc   int
	// OnWait is called (on the waiting thread, before it parks) when a thread enters Cond.Wait.
	OnWait func(c *vsync.Cond, thread int)
	// OnPoint is called at every scheduling point with the id of the thread that reached it.
	OnPoint func(thread int)
	// OnStep is called at every scheduling step (Lock point, entering Wait, thread end), on the
	// thread that reached it, before the next thread is chosen: the place for state invariants.
	OnStep func()
}

// Run executes the thread bodies under the scheduler, taking scheduling decisions from ch.
func Run(ch *seqx.Chooser, maxSteps int, setup func(s *Sched), bodies []func()) *Exec {
	s := &Sched{ch: ch, done: make(chan struct{}), kill: make(chan struct{}), ex: &Exec{}, maxSteps: maxSteps}
	if setup != nil {
		setup(s)
	}
	for i := range bodies {
		s.threads = append(s.threads, &thread{id: i, resume: make(chan struct{})})
	}
	vsync.Active = s
	var wg sync.WaitGroup
	for i, b := range bodies {
		t, body := s.threads[i], b
		wg.Add(1)
		go func() {
			defer wg.Done()
			select {
			case <-t.resume:
			case <-s.kill:
				return
			}
			if s.killed {
				return
			}
			defer func() {
				// the body returned, panicked, or was killed with Goexit
				if x := recover(); x != nil && !s.killed {
					s.ex.Panics = append(s.ex.Panics, fmt.Sprintf("thread %d: %v", t.id, x))
				}
				if s.killed {
					return
				}
				t.state = stDone
				s.cur = nil
				s.schedule(t)
			}()
			body()
		}()
	}
	// start: pick the first thread
	first := s.pick(nil)
	if first != nil {
		s.cur = first
		first.resume <- struct{}{}
		<-s.done
	}
	wg.Wait()
	vsync.Active = nil
	return s.ex
}

// enabled threads in canonical order: the running one first (if enabled), then ascending ids.
func (s *Sched) enabled(running *thread) []*thread {
	var out []*thread
	ok := func(t *thread) bool {
		return t.state == stRunnable && (t.want == nil || t.want.Owner == 0)
	}
	if running != nil && ok(running) {
		out = append(out, running)
	}
	for _, t := range s.threads {
		if t != running && ok(t) {
			out = append(out, t)
		}
	}
	return out
}

// pick asks the explorer which enabled thread runs next. nil: nobody can run.
func (s *Sched) pick(running *thread) *thread {
	en := s.enabled(running)
	if len(en) == 0 {
		return nil
	}
	var i int
	if running != nil && en[0] == running {
		i = s.ch.Choose(len(en)) // alternatives are preemptions
		if i != 0 {
			s.ex.Preemption++
		}
	} else {
		i = s.ch.ChooseFree(len(en)) // forced switch: free
	}
	s.ex.Schedule = append(s.ex.Schedule, en[i].id)
	return en[i]
}

// schedule is called by thread t at a scheduling point (or when it finished / parked).
func (s *Sched) schedule(t *thread) {
	s.ex.Steps++
	if s.OnStep != nil {
		s.OnStep()
	}
	if s.ex.Steps > s.maxSteps {
		s.ex.Livelock = true
		s.finish()
		return
	}
	var running *thread
	if t.state == stRunnable {
		running = t
	}
	next := s.pick(running)
	if next == nil {
		all := true
		for _, x := range s.threads {
			if x.state != stDone {
				all = false
				what := "waiting on a condition"
				if x.state == stRunnable {
					what = "blocked on a mutex"
				}
				s.ex.Blocked = append(s.ex.Blocked, fmt.Sprintf("thread %d %s", x.id, what))
			}
		}
		if !all {
			s.ex.Deadlock = true
		}
		s.finish()
		return
	}
	if next == t {
		s.cur = t
		return
	}
	s.cur = next
	next.resume <- struct{}{}
	if t.state != stDone {
		select {
		case <-t.resume:
		case <-s.kill:
			runtime.Goexit()
		}
		if s.killed {
			runtime.Goexit()
		}
	}
}

// finish ends the execution: parked threads are released (they exit) and so does the caller.
func (s *Sched) finish() {
	s.killed = true
	close(s.kill)
	close(s.done)
	runtime.Goexit()
}

func (s *Sched) me() *thread { return s.cur }

func (s *Sched) Lock(m *vsync.Mutex) {
	if s.killed {
		return
	}
	t := s.me()
	if m.ID == 0 {
		s.nm++
		m.ID = s.nm
	}
	t.want = m
	if s.OnPoint != nil {
		s.OnPoint(t.id)
	}
	s.schedule(t) // returns when t is chosen and m is free
	t.want = nil
	m.Owner = t.id + 1
}

func (s *Sched) Unlock(m *vsync.Mutex) {
	if s.killed {
		return
	}
	m.Owner = 0
}

func (s *Sched) Wait(c *vsync.Cond) {
	if s.killed {
		return
	}
	t := s.me()
	if c.ID == 0 {
		s.nc++
		c.ID = s.nc
	}
	if s.OnWait != nil {
		s.OnWait(c, t.id)
	}
	m := c.L.(*vsync.Mutex)
	m.Owner = 0
	c.Waiters = append(c.Waiters, t.id)
	t.state = stWaiting
	t.want = m // once signalled it has to re-acquire the mutex
	s.schedule(t)
	t.want = nil
	m.Owner = t.id + 1
}

func (s *Sched) Signal(c *vsync.Cond) {
	if s.killed || len(c.Waiters) == 0 {
		return
	}
	id := c.Waiters[0]
	c.Waiters = c.Waiters[1:]
	s.threads[id].state = stRunnable
}

func (s *Sched) Broadcast(c *vsync.Cond) {
	if s.killed {
		return
	}
	for _, id := range c.Waiters {
		s.threads[id].state = stRunnable
	}
	c.Waiters = nil
}

// Describe renders the schedule compactly.
func (e *Exec) Describe() string {
	var b strings.Builder
	for _, t := range e.Schedule {
		fmt.Fprintf(&b, "%d", t)
	}
	return b.String()
}
