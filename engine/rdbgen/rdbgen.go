// Package rdbgen is an RDB *writer* written from the Redis RDB format description, independent
// of the parser under test. Every constructor returns the bytes it wrote together with the
// logical value they stand for, so oracles never have to decode compact encodings themselves.
// Go 1.14 dialect, standard library only.
package rdbgen

import (
	"bytes"
	"encoding/binary"
	"fmt"
	"math"
	"strconv"

	"github.com/alibaba/RedisShake/verifrt/crcref"
)

// RDB type bytes and opcodes (from rdb.h)
const (
	TString     = 0
	TList       = 1
	TSet        = 2
	TZSet       = 3
	THash       = 4
	TZSet2      = 5
	TZipmap     = 9
	TListZip    = 10
	TIntset     = 11
	TZSetZip    = 12
	THashZip    = 13
	TQuicklist  = 14
	TStream     = 15
	OpModuleAux = 0xf7
	OpIdle      = 0xf8
	OpFreq      = 0xf9
	OpAux       = 0xfa
	OpResizeDB  = 0xfb
	OpExpireMS  = 0xfc
	OpExpireS   = 0xfd
	OpSelectDB  = 0xfe
	OpEOF       = 0xff
)

// ---------------------------------------------------------------------------------------
// lengths

// Len forms
const (
	LCanon = iota // shortest form, as Redis writes
	L14           // 14-bit form (value must be < 16384)
	L32           // 0x80 + 4 bytes big endian
	L64           // 0x81 + 8 bytes big endian
)

func Len(n uint64, form int) []byte {
	switch form {
	case LCanon:
		switch {
		case n < 64:
			return []byte{byte(n)}
		case n < 16384:
			return []byte{0x40 | byte(n>>8), byte(n)}
		case n <= math.MaxUint32:
			return Len(n, L32)
		default:
			return Len(n, L64)
		}
	case L14:
		if n >= 16384 {
			panic("L14 too big")
		}
		return []byte{0x40 | byte(n>>8), byte(n)}
	case L32:
		b := make([]byte, 5)
		b[0] = 0x80
		binary.BigEndian.PutUint32(b[1:], uint32(n))
		return b
	default:
		b := make([]byte, 9)
		b[0] = 0x81
		binary.BigEndian.PutUint64(b[1:], n)
		return b
	}
}

// ---------------------------------------------------------------------------------------
// strings

// Str is one string object as stored: Raw are the file bytes, Val the logical bytes.
type Str struct {
	Raw  []byte
	Val  []byte
	Form string
}

func RawStr(v []byte, lenForm int) Str {
	out := append([]byte{}, Len(uint64(len(v)), lenForm)...)
	out = append(out, v...)
	return Str{Raw: out, Val: append([]byte{}, v...), Form: "raw" + strconv.Itoa(lenForm)}
}

// IntStr encodes an integer with the 0xC0/0xC1/0xC2 special encodings; bits in {8,16,32}.
func IntStr(v int64, bits int) Str {
	var out []byte
	switch bits {
	case 8:
		out = []byte{0xc0, byte(int8(v))}
	case 16:
		out = make([]byte, 3)
		out[0] = 0xc1
		binary.LittleEndian.PutUint16(out[1:], uint16(int16(v)))
	default:
		out = make([]byte, 5)
		out[0] = 0xc2
		binary.LittleEndian.PutUint32(out[1:], uint32(int32(v)))
	}
	return Str{Raw: out, Val: []byte(strconv.FormatInt(v, 10)), Form: "int" + strconv.Itoa(bits)}
}

// lzfLiteral compresses as literal runs only.
func lzfLiteral(v []byte) []byte {
	var out []byte
	for i := 0; i < len(v); {
		n := len(v) - i
		if n > 32 {
			n = 32
		}
		out = append(out, byte(n-1))
		out = append(out, v[i:i+n]...)
		i += n
	}
	return out
}

// LZFStr stores v LZF-compressed. mode "lit": literal runs only; "ref": v must be
// seed repeated (len(seed)=period): a literal seed followed by back-references of length
// refLen (3..8 short form, 9..264 long form) copying from `period` bytes back.
func LZFStr(v []byte, mode string, period, refLen int) Str {
	var comp []byte
	if mode == "lit" {
		comp = lzfLiteral(v)
	} else {
		for i := 0; i < len(v); i++ {
			if v[i] != v[i%period] {
				panic("LZFStr ref: not periodic")
			}
		}
		comp = lzfLiteral(v[:period])
		o := period
		for o < len(v) {
			n := len(v) - o
			if n > refLen {
				n = refLen
			}
			if n < 3 {
				// too short for a back-reference: literal
				comp = append(comp, byte(n-1))
				comp = append(comp, v[o:o+n]...)
				o += n
				continue
			}
			off := period - 1
			l := n - 2
			if l < 7 {
				comp = append(comp, byte(l<<5)|byte(off>>8), byte(off))
			} else {
				comp = append(comp, byte(7<<5)|byte(off>>8), byte(l-7), byte(off))
			}
			o += n
		}
	}
	if got := lzfRef(comp, len(v)); !bytes.Equal(got, v) {
		panic(fmt.Sprintf("rdbgen lzf self check failed: %q vs %q", got, v))
	}
	out := []byte{0xc3}
	out = append(out, Len(uint64(len(comp)), LCanon)...)
	out = append(out, Len(uint64(len(v)), LCanon)...)
	out = append(out, comp...)
	return Str{Raw: out, Val: append([]byte{}, v...), Form: "lzf-" + mode}
}

// lzfRef is a reference decompressor used only to self-check the generator.
func lzfRef(in []byte, outlen int) []byte {
	out := make([]byte, 0, outlen)
	for i := 0; i < len(in); {
		c := int(in[i])
		i++
		if c < 32 {
			out = append(out, in[i:i+c+1]...)
			i += c + 1
		} else {
			l := c >> 5
			if l == 7 {
				l += int(in[i])
				i++
			}
			ref := len(out) - ((c&0x1f)<<8 | int(in[i])) - 1
			i++
			for k := 0; k < l+2; k++ {
				out = append(out, out[ref+k])
			}
		}
	}
	return out
}

// ---------------------------------------------------------------------------------------
// logical values

type ZM struct {
	Member []byte
	Score  float64
}

// Logical is what Redis materialises from a value. Kind: string list set zset hash stream.
type Logical struct {
	Kind  string
	Str   []byte
	Elems [][]byte    // list (ordered) / set (unordered)
	Pairs [][2][]byte // hash, in storage order
	ZSet  []ZM
}

// Value is one serialised value: Type byte + Raw bytes, and its meaning.
type Value struct {
	Type byte
	Raw  []byte
	Log  *Logical
	Name string
}

func StringVal(s Str) *Value {
	return &Value{Type: TString, Raw: s.Raw, Log: &Logical{Kind: "string", Str: s.Val}, Name: "string/" + s.Form}
}

func seq(t byte, kind string, elems []Str, lenForm int, name string) *Value {
	raw := append([]byte{}, Len(uint64(len(elems)), lenForm)...)
	lg := &Logical{Kind: kind}
	for _, e := range elems {
		raw = append(raw, e.Raw...)
		lg.Elems = append(lg.Elems, e.Val)
	}
	return &Value{Type: t, Raw: raw, Log: lg, Name: name}
}

func ListVal(elems []Str, lenForm int) *Value { return seq(TList, "list", elems, lenForm, "list") }
func SetVal(elems []Str, lenForm int) *Value  { return seq(TSet, "set", elems, lenForm, "set") }

// HashVal: elems alternate field, value.
func HashVal(elems []Str, lenForm int) *Value {
	raw := append([]byte{}, Len(uint64(len(elems)/2), lenForm)...)
	lg := &Logical{Kind: "hash"}
	for i := 0; i+1 < len(elems); i += 2 {
		raw = append(raw, elems[i].Raw...)
		raw = append(raw, elems[i+1].Raw...)
		lg.Pairs = append(lg.Pairs, [2][]byte{elems[i].Val, elems[i+1].Val})
	}
	return &Value{Type: THash, Raw: raw, Log: lg, Name: "hash"}
}

// oldFloat is the RDB_TYPE_ZSET score format: length byte + ASCII, 253 nan, 254 +inf, 255 -inf.
func oldFloat(f float64) []byte {
	switch {
	case math.IsNaN(f):
		return []byte{253}
	case math.IsInf(f, 1):
		return []byte{254}
	case math.IsInf(f, -1):
		return []byte{255}
	}
	s := strconv.FormatFloat(f, 'g', 17, 64)
	return append([]byte{byte(len(s))}, s...)
}

func ZSetVal(members []Str, scores []float64, binaryScores bool) *Value {
	t := byte(TZSet)
	name := "zset"
	if binaryScores {
		t = TZSet2
		name = "zset2"
	}
	raw := append([]byte{}, Len(uint64(len(members)), LCanon)...)
	lg := &Logical{Kind: "zset"}
	for i, m := range members {
		raw = append(raw, m.Raw...)
		if binaryScores {
			b := make([]byte, 8)
			binary.LittleEndian.PutUint64(b, math.Float64bits(scores[i]))
			raw = append(raw, b...)
		} else {
			raw = append(raw, oldFloat(scores[i])...)
		}
		lg.ZSet = append(lg.ZSet, ZM{m.Val, scores[i]})
	}
	return &Value{Type: t, Raw: raw, Log: lg, Name: name}
}

// ---------------------------------------------------------------------------------------
// ziplist

// ZE is a ziplist entry: either a string (Enc "s6","s14","s32") or an integer
// (Enc "i4","i8","i16","i24","i32","i64").
type ZE struct {
	Enc string
	S   []byte
	I   int64
}

func (e ZE) logical() []byte {
	if e.Enc[0] == 's' {
		return e.S
	}
	return []byte(strconv.FormatInt(e.I, 10))
}

func (e ZE) body() []byte {
	switch e.Enc {
	case "s6":
		return append([]byte{byte(len(e.S))}, e.S...)
	case "s14":
		return append([]byte{0x40 | byte(len(e.S)>>8), byte(len(e.S))}, e.S...)
	case "s32":
		b := make([]byte, 5)
		b[0] = 0x80
		binary.BigEndian.PutUint32(b[1:], uint32(len(e.S)))
		return append(b, e.S...)
	case "i4":
		return []byte{0xf1 + byte(e.I)}
	case "i8":
		return []byte{0xfe, byte(int8(e.I))}
	case "i16":
		b := make([]byte, 3)
		b[0] = 0xc0
		binary.LittleEndian.PutUint16(b[1:], uint16(int16(e.I)))
		return b
	case "i24":
		u := uint32(int32(e.I))
		return []byte{0xf0, byte(u), byte(u >> 8), byte(u >> 16)}
	case "i32":
		b := make([]byte, 5)
		b[0] = 0xd0
		binary.LittleEndian.PutUint32(b[1:], uint32(int32(e.I)))
		return b
	case "i64":
		b := make([]byte, 9)
		b[0] = 0xe0
		binary.LittleEndian.PutUint64(b[1:], uint64(e.I))
		return b
	}
	panic("bad ziplist enc " + e.Enc)
}

// Ziplist renders the blob. widePrev forces the 5-byte prevlen form on every entry after the
// first (Redis keeps it after a large neighbour shrank).
func Ziplist(es []ZE, widePrev bool) []byte {
	var body []byte
	prev := 0
	tail := 10
	for i, e := range es {
		start := len(body)
		if prev >= 254 || (widePrev && i > 0) {
			p := make([]byte, 5)
			p[0] = 0xfe
			binary.LittleEndian.PutUint32(p[1:], uint32(prev))
			body = append(body, p...)
		} else {
			body = append(body, byte(prev))
		}
		body = append(body, e.body()...)
		prev = len(body) - start
		tail = 10 + start
	}
	out := make([]byte, 10)
	binary.LittleEndian.PutUint32(out[0:], uint32(10+len(body)+1))
	binary.LittleEndian.PutUint32(out[4:], uint32(tail))
	n := len(es)
	if n > 65535 {
		n = 65535
	}
	binary.LittleEndian.PutUint16(out[8:], uint16(n))
	out = append(out, body...)
	out = append(out, 0xff)
	return out
}

func zlElems(es []ZE) [][]byte {
	var out [][]byte
	for _, e := range es {
		out = append(out, e.logical())
	}
	return out
}

// container wraps the blob as a string object (raw or lzf-literal).
func container(blob []byte, lzf bool) []byte {
	if lzf {
		return LZFStr(blob, "lit", 0, 0).Raw
	}
	return RawStr(blob, LCanon).Raw
}

func ListZiplistVal(es []ZE, widePrev, lzf bool) *Value {
	return &Value{Type: TListZip, Raw: container(Ziplist(es, widePrev), lzf), Log: &Logical{Kind: "list", Elems: zlElems(es)}, Name: "list-ziplist"}
}

func HashZiplistVal(es []ZE, widePrev, lzf bool) *Value {
	lg := &Logical{Kind: "hash"}
	el := zlElems(es)
	for i := 0; i+1 < len(el); i += 2 {
		lg.Pairs = append(lg.Pairs, [2][]byte{el[i], el[i+1]})
	}
	return &Value{Type: THashZip, Raw: container(Ziplist(es, widePrev), lzf), Log: lg, Name: "hash-ziplist"}
}

// ZSetZiplistVal: entries alternate member, score (score as string or int entry).
func ZSetZiplistVal(es []ZE, widePrev, lzf bool) *Value {
	lg := &Logical{Kind: "zset"}
	el := zlElems(es)
	for i := 0; i+1 < len(el); i += 2 {
		f, err := strconv.ParseFloat(string(el[i+1]), 64)
		if err != nil {
			panic("zset ziplist score " + string(el[i+1]))
		}
		lg.ZSet = append(lg.ZSet, ZM{el[i], f})
	}
	return &Value{Type: TZSetZip, Raw: container(Ziplist(es, widePrev), lzf), Log: lg, Name: "zset-ziplist"}
}

func QuicklistVal(nodes [][]ZE, lzfNode bool) *Value {
	raw := append([]byte{}, Len(uint64(len(nodes)), LCanon)...)
	lg := &Logical{Kind: "list"}
	for _, n := range nodes {
		raw = append(raw, container(Ziplist(n, false), lzfNode)...)
		lg.Elems = append(lg.Elems, zlElems(n)...)
	}
	return &Value{Type: TQuicklist, Raw: raw, Log: lg, Name: "quicklist"}
}

// IntsetVal: width in {2,4,8}.
func IntsetVal(vals []int64, width int, lzf bool) *Value {
	blob := make([]byte, 8)
	binary.LittleEndian.PutUint32(blob[0:], uint32(width))
	binary.LittleEndian.PutUint32(blob[4:], uint32(len(vals)))
	lg := &Logical{Kind: "set"}
	for _, v := range vals {
		b := make([]byte, width)
		switch width {
		case 2:
			binary.LittleEndian.PutUint16(b, uint16(int16(v)))
		case 4:
			binary.LittleEndian.PutUint32(b, uint32(int32(v)))
		default:
			binary.LittleEndian.PutUint64(b, uint64(v))
		}
		blob = append(blob, b...)
		lg.Elems = append(lg.Elems, []byte(strconv.FormatInt(v, 10)))
	}
	return &Value{Type: TIntset, Raw: container(blob, lzf), Log: lg, Name: "intset" + strconv.Itoa(width*8)}
}

// ZipmapVal: pairs of (field, value); free = unused bytes after each value. Lengths >= 254 use
// the big form of zipmap.c: marker 254 followed by a 4-byte little-endian length.
func ZipmapVal(pairs [][2][]byte, free int) *Value {
	n := len(pairs)
	if n > 254 {
		n = 254
	}
	blob := []byte{byte(n)}
	zlen := func(l int) []byte {
		if l >= 254 {
			b := make([]byte, 5)
			b[0] = 254
			binary.LittleEndian.PutUint32(b[1:], uint32(l))
			return b
		}
		return []byte{byte(l)}
	}
	lg := &Logical{Kind: "hash"}
	for _, p := range pairs {
		blob = append(blob, zlen(len(p[0]))...)
		blob = append(blob, p[0]...)
		blob = append(blob, zlen(len(p[1]))...)
		blob = append(blob, byte(free))
		blob = append(blob, p[1]...)
		for i := 0; i < free; i++ {
			blob = append(blob, 0xee)
		}
		lg.Pairs = append(lg.Pairs, [2][]byte{p[0], p[1]})
	}
	blob = append(blob, 0xff)
	return &Value{Type: TZipmap, Raw: container(blob, false), Log: lg, Name: "zipmap"}
}

// ---------------------------------------------------------------------------------------
// streams (RDB_TYPE_STREAM_LISTPACKS, RDB version 9)

type StreamPEL struct {
	ID    [16]byte
	Seen  uint64
	Count uint64
}
type StreamConsumer struct {
	Name []byte
	Seen uint64
	PEL  [][16]byte
}
type StreamGroup struct {
	Name      []byte
	LastMs    uint64
	LastSeq   uint64
	PEL       []StreamPEL
	Consumers []StreamConsumer
}

// StreamVal: packs are (16-byte master id, listpack blob) pairs; blobs are opaque to the
// tool (they are carried inside the DUMP payload), so any bytes do.
func StreamVal(packs [][2][]byte, items, lastMs, lastSeq uint64, groups []StreamGroup) *Value {
	raw := append([]byte{}, Len(uint64(len(packs)), LCanon)...)
	for _, p := range packs {
		raw = append(raw, RawStr(p[0], LCanon).Raw...)
		raw = append(raw, RawStr(p[1], LCanon).Raw...)
	}
	raw = append(raw, Len(items, LCanon)...)
	raw = append(raw, Len(lastMs, LCanon)...)
	raw = append(raw, Len(lastSeq, LCanon)...)
	raw = append(raw, Len(uint64(len(groups)), LCanon)...)
	le64 := func(v uint64) []byte {
		b := make([]byte, 8)
		binary.LittleEndian.PutUint64(b, v)
		return b
	}
	for _, g := range groups {
		raw = append(raw, RawStr(g.Name, LCanon).Raw...)
		raw = append(raw, Len(g.LastMs, LCanon)...)
		raw = append(raw, Len(g.LastSeq, LCanon)...)
		raw = append(raw, Len(uint64(len(g.PEL)), LCanon)...)
		for _, p := range g.PEL {
			raw = append(raw, p.ID[:]...)
			raw = append(raw, le64(p.Seen)...)
			raw = append(raw, Len(p.Count, LCanon)...)
		}
		raw = append(raw, Len(uint64(len(g.Consumers)), LCanon)...)
		for _, c := range g.Consumers {
			raw = append(raw, RawStr(c.Name, LCanon).Raw...)
			raw = append(raw, le64(c.Seen)...)
			raw = append(raw, Len(uint64(len(c.PEL)), LCanon)...)
			for _, id := range c.PEL {
				raw = append(raw, id[:]...)
			}
		}
	}
	return &Value{Type: TStream, Raw: raw, Log: &Logical{Kind: "stream", Str: raw}, Name: "stream"}
}

// ---------------------------------------------------------------------------------------
// file items

// Item is one top-level element of an RDB file.
type Item struct {
	Kind  string // select aux lua resizedb moduleaux key
	Bytes []byte
	DB    uint32
	// key items
	Key      []byte
	ExpireAt uint64 // absolute ms, 0 = none
	Idle     uint32
	Freq     uint8
	Val      *Value
	Script   []byte
	Name     string
}

func SelectDB(n uint32, form int) Item {
	return Item{Kind: "select", Bytes: append([]byte{OpSelectDB}, Len(uint64(n), form)...), DB: n, Name: fmt.Sprintf("select%d/%d", n, form)}
}

func Aux(k, v Str) Item {
	b := append([]byte{OpAux}, k.Raw...)
	b = append(b, v.Raw...)
	if string(k.Val) == "lua" {
		return Item{Kind: "lua", Bytes: b, Script: v.Val, Name: "lua"}
	}
	return Item{Kind: "aux", Bytes: b, Name: "aux:" + string(k.Val)}
}

func ResizeDB(a, b uint64, form int) Item {
	out := append([]byte{OpResizeDB}, Len(a, form)...)
	out = append(out, Len(b, form)...)
	return Item{Kind: "resizedb", Bytes: out, Name: "resizedb"}
}

// ModuleAux: ops is a list of sub-opcode names: sint uint float double string.
func ModuleAux(moduleID uint64, ops []string) Item {
	out := append([]byte{OpModuleAux}, Len(moduleID, LCanon)...)
	// when_opcode (UINT) + when
	out = append(out, Len(2, LCanon)...)
	out = append(out, Len(1, LCanon)...)
	for _, op := range ops {
		switch op {
		case "sint":
			out = append(out, Len(1, LCanon)...)
			out = append(out, Len(uint64(0xfffffffffffffff0), LCanon)...) // -16 as two's complement, 64-bit form
		case "uint":
			out = append(out, Len(2, LCanon)...)
			out = append(out, Len(1<<40, LCanon)...)
		case "uint-small":
			out = append(out, Len(2, LCanon)...)
			out = append(out, Len(7, LCanon)...)
		case "float":
			out = append(out, Len(3, LCanon)...)
			b := make([]byte, 4)
			binary.LittleEndian.PutUint32(b, math.Float32bits(1.5))
			out = append(out, b...)
		case "double":
			out = append(out, Len(4, LCanon)...)
			b := make([]byte, 8)
			binary.LittleEndian.PutUint64(b, math.Float64bits(-2.25))
			out = append(out, b...)
		case "string":
			out = append(out, Len(5, LCanon)...)
			out = append(out, RawStr([]byte("mod\xffdata"), LCanon).Raw...)
		}
	}
	out = append(out, Len(0, LCanon)...)
	name := "moduleaux"
	for _, op := range ops {
		name += ":" + op
	}
	return Item{Kind: "moduleaux", Bytes: out, Name: name}
}

// KeyOpts: expiry kind "", "s", "ms"
type KeyOpts struct {
	ExpKind string
	ExpAt   uint64 // seconds for "s", milliseconds for "ms"
	HasIdle bool
	Idle    uint64
	HasFreq bool
	Freq    uint8
}

func Key(key Str, v *Value, o KeyOpts) Item {
	var b []byte
	it := Item{Kind: "key", Key: key.Val, Val: v}
	switch o.ExpKind {
	case "s":
		b = append(b, OpExpireS)
		x := make([]byte, 4)
		binary.LittleEndian.PutUint32(x, uint32(o.ExpAt))
		b = append(b, x...)
		it.ExpireAt = o.ExpAt * 1000
	case "ms":
		b = append(b, OpExpireMS)
		x := make([]byte, 8)
		binary.LittleEndian.PutUint64(x, o.ExpAt)
		b = append(b, x...)
		it.ExpireAt = o.ExpAt
	}
	if o.HasIdle {
		b = append(b, OpIdle)
		b = append(b, Len(o.Idle, LCanon)...)
		it.Idle = uint32(o.Idle)
	}
	if o.HasFreq {
		b = append(b, OpFreq, o.Freq)
		it.Freq = o.Freq
	}
	b = append(b, v.Type)
	b = append(b, key.Raw...)
	b = append(b, v.Raw...)
	it.Bytes = b
	it.Name = fmt.Sprintf("key(%s,%s,exp=%s,idle=%v,freq=%v)", key.Form, v.Name, o.ExpKind, o.HasIdle, o.HasFreq)
	return it
}

// Record is what the parser must deliver for one key (or Lua script).
type Record struct {
	DB       uint32
	Key      []byte
	Type     byte
	ExpireAt uint64
	Idle     uint32
	Freq     uint8
	Value    []byte // DUMP payload for keys, script text for Lua
	Log      *Logical
	Script   bool
}

// Dump wraps a value as a DUMP payload: type ‖ raw ‖ version(2, LE) ‖ CRC64(LE) of all before.
func Dump(t byte, raw []byte, version uint16) []byte {
	out := append([]byte{t}, raw...)
	out = append(out, byte(version), byte(version>>8))
	c := crcref.CRC64(0, out)
	x := make([]byte, 8)
	binary.LittleEndian.PutUint64(x, c)
	return append(out, x...)
}

// File renders header + items + EOF (+ checksum for version >= 5) and the expected records.
func File(version int, items []Item) ([]byte, []Record) {
	out := []byte(fmt.Sprintf("REDIS%04d", version))
	var recs []Record
	db := uint32(0)
	for _, it := range items {
		out = append(out, it.Bytes...)
		switch it.Kind {
		case "select":
			db = it.DB
		case "lua":
			recs = append(recs, Record{DB: db, Key: []byte("lua"), Type: OpAux, Value: it.Script, Script: true})
		case "key":
			recs = append(recs, Record{DB: db, Key: it.Key, Type: it.Val.Type, ExpireAt: it.ExpireAt, Idle: it.Idle, Freq: it.Freq,
				Value: Dump(it.Val.Type, it.Val.Raw, 6), Log: it.Val.Log})
		}
	}
	out = append(out, OpEOF)
	if version >= 5 {
		x := make([]byte, 8)
		binary.LittleEndian.PutUint64(x, crcref.CRC64(0, out))
		out = append(out, x...)
	}
	return out, recs
}
