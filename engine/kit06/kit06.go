// Package kit06 holds the reference predicate and the configuration / key domains of C06
// (filters honoured identically in every mode and phase). The data paths themselves are driven
// by the harnesses of the packages they live in.
package kit06

import (
	"fmt"
	"os"
	"sort"
	"strconv"
	"strings"

	conf "github.com/alibaba/RedisShake/redis-shake/configure"
	"github.com/alibaba/RedisShake/verifrt/crcref"
)

const CheckpointKey = "redis-shake-checkpoint"

// Marker is put into the value of every key of source database db, so that the source database
// of a RESTORE / SET seen by the target stays observable when target.db folds all databases
// into one.
func Marker(db int) string { return fmt.Sprintf("dbval%d;", db) }

// Attribute extracts (source database, key) from a RESTORE or SET command the target applied.
func Attribute(argv [][]byte) (srcdb int, key string, ok bool) {
	if len(argv) < 3 {
		return 0, "", false
	}
	var payload []byte
	switch strings.ToLower(string(argv[0])) {
	case "restore":
		if len(argv) < 4 {
			return 0, "", false
		}
		payload = argv[3]
	case "set":
		payload = argv[2]
	default:
		return 0, "", false
	}
	i := strings.Index(string(payload), "dbval")
	if i < 0 {
		return 0, "", false
	}
	rest := string(payload[i+5:])
	j := strings.Index(rest, ";")
	if j <= 0 {
		return 0, "", false
	}
	n, err := strconv.Atoi(rest[:j])
	if err != nil {
		return 0, "", false
	}
	return n, string(argv[1]), true
}

// Observed folds the commands a target applied into the set of (source db, key) pairs that
// reached it. tdb >= 0: everything must have been written into database tdb; tdb < 0: into the
// source database. Every pair may arrive at most once.
type AppliedCmd struct {
	DB   int
	Argv [][]byte
}

func Observed(cmds []AppliedCmd, tdb int) (got map[string]bool, kind, what string) {
	got = map[string]bool{}
	for _, a := range cmds {
		src, key, ok := Attribute(a.Argv)
		if !ok {
			continue
		}
		want := src
		if tdb >= 0 {
			want = tdb
		}
		if a.DB != want {
			return got, "wrong-target-db", fmt.Sprintf("key %q of source db %d was written into target db %d, expected %d", key, src, a.DB, want)
		}
		id := fmt.Sprintf("%d/%s", src, key)
		if got[id] {
			return got, "copied-twice", fmt.Sprintf("key %q of source db %d was written twice", key, src)
		}
		got[id] = true
	}
	return got, "", ""
}

type Config struct {
	KeyWhite []string `json:"key_whitelist"`
	KeyBlack []string `json:"key_blacklist"`
	DBWhite  []string `json:"db_whitelist"`
	DBBlack  []string `json:"db_blacklist"`
	Slots    []string `json:"slots"`
	Lua      bool     `json:"filter_lua"`
}

func (c Config) String() string {
	return fmt.Sprintf("key.white=%v key.black=%v db.white=%v db.black=%v slot=%v lua=%v", c.KeyWhite, c.KeyBlack, c.DBWhite, c.DBBlack, c.Slots, c.Lua)
}

func (c Config) Apply() {
	conf.Options.FilterKeyWhitelist = c.KeyWhite
	conf.Options.FilterKeyBlacklist = c.KeyBlack
	conf.Options.FilterDBWhitelist = c.DBWhite
	conf.Options.FilterDBBlacklist = c.DBBlack
	conf.Options.FilterSlot = c.Slots
	conf.Options.FilterLua = c.Lua
}

func Reset() { Config{}.Apply() }

func subsets(items []string) [][]string {
	var out [][]string
	for m := 1; m < 1<<uint(len(items)); m++ {
		var s []string
		for i, it := range items {
			if m&(1<<uint(i)) != 0 {
				s = append(s, it)
			}
		}
		out = append(out, s)
	}
	return out
}

func thorough() bool { return os.Getenv("VERIF_TIER") == "thorough" }

// KeyDepth: strings over {a,b,c} up to this length form the key domain (3 quick, 4 thorough).
func KeyDepth() int {
	if thorough() {
		return 4
	}
	return 3
}

// Keys is the key domain: all strings up to length KeyDepth() over {a,b,c} and the special ones.
func Keys() []string {
	out := []string{""}
	var rec func(p string)
	rec = func(p string) {
		if p != "" {
			out = append(out, p)
		}
		if len(p) == KeyDepth() {
			return
		}
		for _, c := range "abc" {
			rec(p + string(c))
		}
	}
	rec("")
	out = append(out, "\x00\xffa", "x{a}y", "{ab}c", "a}b{ab}c", "}{ab}", "{}{ab}", "{ab}{c}", "a{b{ab}", "A", "Ab", CheckpointKey, CheckpointKey+"-abcd", CheckpointKey+"x", "redis-shake-checkpoin", "lua", "\xc3\xa9", "k\x80\xfe", "{\xe4\xb8\xad}a")
	return out
}

var DBs = []int{0, 1, 2, 10, 11}

// Configs enumerates the filter configurations. level 0: one list kind at a time; level 1: key
// lists crossed with db lists.
func Configs(path string, level int) []Config {
	prefixes := []string{"a", "ab", "b"}
	if thorough() {
		prefixes = []string{"a", "ab", "b", "abc", "c"}
	}
	dbl := []string{"0", "1", "10"}
	keyCfgs := []Config{{}}
	for _, s := range subsets(prefixes) {
		keyCfgs = append(keyCfgs, Config{KeyWhite: s}, Config{KeyBlack: s})
	}
	// key lists whose prefixes cover the tool's own checkpoint key (which stays excluded)
	keyCfgs = append(keyCfgs, Config{KeyWhite: []string{"redis-"}}, Config{KeyWhite: []string{"a", "r"}}, Config{KeyWhite: []string{CheckpointKey}},
		Config{KeyBlack: []string{"redis-shake-checkpoint-"}}, Config{KeyBlack: []string{"l"}})
	dbCfgs := []Config{{}}
	for _, s := range subsets(dbl) {
		dbCfgs = append(dbCfgs, Config{DBWhite: s}, Config{DBBlack: s})
	}
	var out []Config
	for ki, k := range keyCfgs {
		for di, d := range dbCfgs {
			if level == 0 && ki != 0 && di != 0 && (ki+di)%5 != 0 {
				continue
			}
			c := Config{KeyWhite: k.KeyWhite, KeyBlack: k.KeyBlack, DBWhite: d.DBWhite, DBBlack: d.DBBlack, Lua: (ki+di)%2 == 1}
			out = append(out, c)
		}
	}
	if path == "full" {
		// slot lists: the slot of "ab", another slot, both
		sAB := strconv.Itoa(crcref.Slot([]byte("ab")))
		sC := strconv.Itoa(crcref.Slot([]byte("c")))
		// slots of keys with bytes >= 0x80 (their slot is computed over bytes, not runes)
		sHi := strconv.Itoa(crcref.Slot([]byte("\xc3\xa9")))
		sHi2 := strconv.Itoa(crcref.Slot([]byte("k\x80\xfe")))
		sHi3 := strconv.Itoa(crcref.Slot([]byte("\xe4\xb8\xad")))
		for _, sl := range [][]string{{sAB}, {"1"}, {sAB, sC}, {sHi, sHi2, sHi3}} {
			out = append(out, Config{Slots: sl}, Config{Slots: sl, KeyWhite: []string{"a"}}, Config{Slots: sl, DBBlack: []string{"1"}, Lua: true})
		}
	}
	return out
}

func hasPrefix(k string, list []string) bool {
	for _, p := range list {
		if strings.HasPrefix(k, p) {
			return true
		}
	}
	return false
}

func in(s string, list []string) bool {
	for _, x := range list {
		if x == s {
			return true
		}
	}
	return false
}

// DBPasses: database lists match database numbers exactly.
func DBPasses(c Config, db int) bool {
	s := strconv.Itoa(db)
	if len(c.DBBlack) != 0 {
		return !in(s, c.DBBlack)
	}
	if len(c.DBWhite) != 0 {
		return in(s, c.DBWhite)
	}
	return true
}

// Passes is the reference decision for one key on one path ("full", "incr", "restore", "rump").
func Passes(c Config, path string, db int, key string) bool {
	if !DBPasses(c, db) {
		return false
	}
	keyFilter := len(c.KeyWhite) != 0 || len(c.KeyBlack) != 0
	if strings.HasPrefix(key, CheckpointKey) {
		// the tool's own checkpoint keys: never by full sync or restore, nor by any path once a key filter is configured
		if path == "full" || path == "restore" || keyFilter {
			return false
		}
		return true
	}
	if len(c.KeyBlack) != 0 {
		if hasPrefix(key, c.KeyBlack) {
			return false
		}
	} else if len(c.KeyWhite) != 0 {
		if !hasPrefix(key, c.KeyWhite) {
			return false
		}
	}
	if path == "full" && len(c.Slots) != 0 {
		if !in(strconv.Itoa(crcref.Slot([]byte(key))), c.Slots) {
			return false
		}
	}
	return true
}

// Compare judges the set of (db,key) pairs that reached the target.
func Compare(c Config, path string, got map[string]bool) (kind, what string) {
	var wrong []string
	for _, db := range DBs {
		for _, k := range Keys() {
			id := fmt.Sprintf("%d/%s", db, k)
			want := Passes(c, path, db, k)
			if want && !got[id] {
				wrong = append(wrong, fmt.Sprintf("key %q of db %d must pass but did not reach the target", k, db))
			}
			if !want && got[id] {
				wrong = append(wrong, fmt.Sprintf("key %q of db %d is excluded but reached the target", k, db))
			}
		}
	}
	if len(wrong) == 0 {
		return "", ""
	}
	sort.Strings(wrong)
	kind = "excluded-key-copied"
	if strings.Contains(wrong[0], "must pass") {
		kind = "passing-key-dropped"
	}
	if strings.Contains(wrong[0], CheckpointKey) {
		kind += "-checkpoint"
	}
	more := ""
	if len(wrong) > 1 {
		more = fmt.Sprintf(" (and %d more keys)", len(wrong)-1)
	}
	return kind, wrong[0] + more
}
