// Package msource is a model replication master: it answers AUTH, REPLCONF, PING, SYNC, PSYNC
// and INFO on any net.Conn, records every REPLCONF ACK and PSYNC it receives, and leaves the
// replication byte stream itself to the harness (which writes to the connection directly).
package msource

import (
	"bufio"
	"fmt"
	"io"
	"net"
	"strconv"
	"strings"
	"sync"
)

type Psync struct {
	Conn   int
	RunID  string
	Offset int64
}

type Master struct {
	mu sync.Mutex
	// PsyncReply decides the status line for a PSYNC (without CRLF), e.g. "+CONTINUE" or
	// "+FULLRESYNC <id> <off>" or "-ERR ...". nil: "+CONTINUE".
	PsyncReply func(p Psync) string
	// PsyncExtra: bytes of the replication stream sent in the same write as the status line
	// (a master's reply and the first backlog bytes usually share a TCP segment)
	PsyncExtra func(p Psync) []byte
	Password   string
	// AuthReply, when non-empty, is the reply line (without CRLF) to every AUTH, e.g. the error a
	// server without requirepass gives
	AuthReply string
	Role      string          // for INFO replication, default master
	Unknown   map[string]bool // command names answered with Redis >= 5's "unknown command ... with args beginning with" error

	listenPort string // announced with REPLCONF listening-port
	acks       []int64
	ackAt      []int // connection index of each ack
	psyncs     []Psync
	other      []string
	nconn      int
	conns      []net.Conn
}

func New() *Master { return &Master{Role: "master"} }

func (m *Master) Acks() []int64 {
	m.mu.Lock()
	defer m.mu.Unlock()
	return append([]int64{}, m.acks...)
}

func (m *Master) Psyncs() []Psync {
	m.mu.Lock()
	defer m.mu.Unlock()
	return append([]Psync{}, m.psyncs...)
}

func (m *Master) Other() []string {
	m.mu.Lock()
	defer m.mu.Unlock()
	return append([]string{}, m.other...)
}

// Conn returns the server side of the i-th accepted connection.
func (m *Master) Conn(i int) net.Conn {
	m.mu.Lock()
	defer m.mu.Unlock()
	if i < 0 {
		i = len(m.conns) + i
	}
	if i < 0 || i >= len(m.conns) {
		return nil
	}
	return m.conns[i]
}

func (m *Master) NumConns() int {
	m.mu.Lock()
	defer m.mu.Unlock()
	return len(m.conns)
}

func readCmd(br *bufio.Reader) ([]string, error) {
	line, err := br.ReadString('\n')
	if err != nil {
		return nil, err
	}
	line = strings.TrimRight(line, "\r\n")
	if line == "" {
		return nil, nil
	}
	if line[0] != '*' {
		return strings.Fields(line), nil
	}
	n, err := strconv.Atoi(line[1:])
	if err != nil {
		return nil, fmt.Errorf("protocol error %q", line)
	}
	var out []string
	for i := 0; i < n; i++ {
		h, err := br.ReadString('\n')
		if err != nil {
			return nil, err
		}
		l, err := strconv.Atoi(strings.TrimRight(h[1:], "\r\n"))
		if err != nil {
			return nil, fmt.Errorf("protocol error %q", h)
		}
		b := make([]byte, l+2)
		if _, err := io.ReadFull(br, b); err != nil {
			return nil, err
		}
		out = append(out, string(b[:l]))
	}
	return out, nil
}

// Serve handles the command side of one connection until it breaks.
func (m *Master) Serve(c net.Conn) {
	m.mu.Lock()
	id := m.nconn
	m.nconn++
	m.conns = append(m.conns, c)
	m.mu.Unlock()
	br := bufio.NewReader(c)
	for {
		argv, err := readCmd(br)
		if err != nil {
			return
		}
		if len(argv) == 0 {
			continue
		}
		reply := ""
		if m.Unknown[strings.ToLower(argv[0])] {
			msg := "-ERR unknown command `" + argv[0] + "`, with args beginning with: "
			for _, a := range argv[1:] {
				msg += "`" + a + "`, "
			}
			if _, err := c.Write([]byte(msg + "\r\n")); err != nil {
				return
			}
			continue
		}
		switch strings.ToLower(argv[0]) {
		case "auth":
			if m.AuthReply != "" {
				reply = m.AuthReply + "\r\n"
			} else if len(argv) == 2 && argv[1] == m.Password {
				reply = "+OK\r\n"
			} else {
				reply = "-ERR invalid password\r\n"
			}
		case "ping":
			reply = "+PONG\r\n"
		case "replconf":
			if len(argv) >= 3 && strings.ToLower(argv[1]) == "ack" {
				n, _ := strconv.ParseInt(argv[2], 10, 64)
				m.mu.Lock()
				m.acks = append(m.acks, n)
				m.ackAt = append(m.ackAt, id)
				m.mu.Unlock()
			} else {
				if len(argv) >= 3 && strings.ToLower(argv[1]) == "listening-port" {
					m.mu.Lock()
					m.listenPort = argv[2]
					m.mu.Unlock()
				}
				reply = "+OK\r\n"
			}
		case "psync":
			p := Psync{Conn: id}
			if len(argv) >= 3 {
				p.RunID = argv[1]
				p.Offset, _ = strconv.ParseInt(argv[2], 10, 64)
			}
			m.mu.Lock()
			m.psyncs = append(m.psyncs, p)
			f := m.PsyncReply
			fx := m.PsyncExtra
			m.mu.Unlock()
			line := "+CONTINUE"
			if f != nil {
				line = f(p)
			}
			if line != "" {
				reply = line + "\r\n"
				if fx != nil {
					reply += string(fx(p))
				}
			}
		case "info":
			// the replica line a master shows for the tool: the port it announced with REPLCONF
			// listening-port and the offset it acknowledged last
			m.mu.Lock()
			port, off := m.listenPort, int64(0)
			if port == "" {
				port = "0"
			}
			if len(m.acks) > 0 {
				off = m.acks[len(m.acks)-1]
			}
			m.mu.Unlock()
			body := "# Replication\r\nrole:" + m.Role + "\r\nconnected_slaves:1\r\nslave0:ip=127.0.0.1,port=" + port + ",state=online,offset=" + strconv.FormatInt(off, 10) + ",lag=0\r\n"
			reply = fmt.Sprintf("$%d\r\n%s\r\n", len(body), body)
		default:
			m.mu.Lock()
			m.other = append(m.other, strings.Join(argv, " "))
			m.mu.Unlock()
			if strings.ToLower(argv[0]) != "sync" {
				reply = "+OK\r\n"
			}
		}
		if reply != "" {
			if _, err := c.Write([]byte(reply)); err != nil {
				return
			}
		}
	}
}
