// Package seqx holds the small enumeration helpers shared by the checks: an exhaustive
// depth-first explorer of choice trees (optionally deviation-bounded and sharded).
package seqx

// Chooser hands out the choices of one execution. Choose(n) returns a value in [0,n); the
// explorer makes every execution replay a prefix and take choice 0 (the default) afterwards.
type Chooser struct {
	prefix []int
	opt    *Options
	Trail  []int // choices taken so far
	Widths []int // number of alternatives at each point
	Free   []bool // choice points whose alternatives do not count as deviations
	Dev    int   // number of non-default choices taken so far
}

// NewReplay returns a chooser that replays the given trail (for --replay).
func NewReplay(trail []int) *Chooser { return &Chooser{prefix: trail, opt: &Options{MaxDev: -1}} }

// ChooseFree is Choose for points where every alternative is free (a forced switch).
func (c *Chooser) ChooseFree(n int) int {
	v := c.choose(n, true)
	return v
}

func (c *Chooser) Choose(n int) int { return c.choose(n, false) }

func (c *Chooser) choose(n int, free bool) int {
	if n <= 0 {
		panic("seqx: Choose(0)")
	}
	i := len(c.Trail)
	v := 0
	if i < len(c.prefix) {
		v = c.prefix[i]
		if v >= n {
			panic("seqx: replayed choice out of range: the execution is not deterministic")
		}
	}
	if v != 0 && !free {
		c.Dev++
	}
	c.Trail = append(c.Trail, v)
	c.Widths = append(c.Widths, n)
	c.Free = append(c.Free, free)
	return v
}

// Owned reports whether this shard is the one that judges and counts this execution
// (executions above the shard depth run on every shard, because they reveal the tree).
func (c *Chooser) Owned() bool {
	if c.opt == nil || c.opt.Mine == nil || c.opt.ShardDepth <= 0 {
		return true
	}
	d := c.opt.ShardDepth
	if d > len(c.Trail) {
		d = len(c.Trail)
	}
	return c.opt.Mine(c.Trail[:d])
}

// Options for Explore. MaxDev < 0: unbounded. Mine decides, from the first ShardDepth
// choices, whether this shard owns an execution; subtrees owned by other shards are skipped.
type Options struct {
	MaxDev     int
	ShardDepth int
	Mine       func(prefix []int) bool
	Stop       func() bool // checked between executions; true ends the exploration early
}

// Explore runs `run` once for every path of the choice tree (within the deviation bound).
// It returns the number of executions and whether the exploration was complete.
func Explore(opt Options, run func(c *Chooser)) (int, bool) {
	n := 0
	prefix := []int{}
	var trail, widths []int
	var free []bool
	for {
		skip := opt.Mine != nil && opt.ShardDepth > 0 && len(prefix) >= opt.ShardDepth && !opt.Mine(prefix[:opt.ShardDepth])
		if !skip {
			c := &Chooser{prefix: prefix, opt: &opt}
			run(c)
			n++
			trail, widths, free = c.Trail, c.Widths, c.Free
			if len(trail) < len(prefix) {
				panic("seqx: execution ended before its replay prefix was consumed: not deterministic")
			}
		} else {
			// prefix = previous trail[:k] + [v+1]; the widths up to k are those of the previous run
			widths = widths[:len(prefix)]
			free = free[:len(prefix)]
			trail = prefix
		}
		if opt.Stop != nil && opt.Stop() {
			return n, false
		}
		next := -1
		dev := 0
		devAt := make([]int, len(trail))
		for i, v := range trail {
			devAt[i] = dev
			if v != 0 && !free[i] {
				dev++
			}
		}
		for i := len(trail) - 1; i >= 0; i-- {
			if trail[i]+1 < widths[i] {
				d := devAt[i] + 1
				if free[i] {
					d = devAt[i]
				}
				if opt.MaxDev >= 0 && d > opt.MaxDev {
					continue
				}
				next = i
				break
			}
		}
		if next < 0 {
			return n, true
		}
		prefix = append(append([]int{}, trail[:next]...), trail[next]+1)
	}
}
