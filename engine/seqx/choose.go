// Package seqx holds the small enumeration helpers shared by the checks: an exhaustive
// depth-first explorer of choice trees (optionally deviation-bounded and sharded).
package seqx

// Chooser hands out the choices of one execution. Choose(n) returns a value in [0,n); the
// explorer makes every execution replay a prefix and take choice 0 (the default) afterwards.
type Chooser struct {
	prefix []int
	opt    *Options
	Trail  []int  // choices taken so far
	Widths []int  // number of alternatives at each point
	Free   []bool // choice points whose alternatives do not count as deviations
	Dev    int    // number of non-default choices taken so far
	// Diverged is set when a replayed choice does not exist this time: the execution did not
	// repeat the prefix faithfully (a source of nondeterminism the harness does not own). The
	// harness must stop judging; Explore retries and, failing that, reports the prefix.
	Diverged bool
	tolerant bool
	Labels   []string // what the harness saw at each choice point (ChooseL)
	expect   []string // labels of the run this one replays a prefix of
}

// ChooseL is Choose with a fingerprint of the choice point (e.g. the list of pending requests).
// When the replayed part of an execution shows a different fingerprint than the run it was
// derived from, the replay is not faithful and Diverged is set.
func (c *Chooser) ChooseL(n int, label string) int {
	i := len(c.Trail)
	if i < len(c.expect) && c.expect[i] != label {
		if !c.tolerant {
			panic("seqx: replayed choice point differs: " + c.expect[i] + " vs " + label)
		}
		c.Diverged = true
	}
	for len(c.Labels) < i {
		c.Labels = append(c.Labels, "")
	}
	c.Labels = append(c.Labels, label)
	return c.choose(n, false)
}

// NewReplay returns a chooser that replays the given trail (for --replay).
func NewReplay(trail []int) *Chooser { return &Chooser{prefix: trail, opt: &Options{MaxDev: -1}} }

// ChooseFree is Choose for points where every alternative is free (a forced switch).
func (c *Chooser) ChooseFree(n int) int {
	v := c.choose(n, true)
	return v
}

func (c *Chooser) Choose(n int) int { return c.choose(n, false) }

func (c *Chooser) choose(n int, free bool) int {
	if n <= 0 {
		panic("seqx: Choose(0)")
	}
	i := len(c.Trail)
	v := 0
	if i < len(c.prefix) {
		v = c.prefix[i]
		if v >= n {
			if !c.tolerant {
				panic("seqx: replayed choice out of range: the execution is not deterministic")
			}
			c.Diverged = true
			v = 0
		}
	}
	if v != 0 && !free {
		c.Dev++
	}
	c.Trail = append(c.Trail, v)
	c.Widths = append(c.Widths, n)
	c.Free = append(c.Free, free)
	return v
}

// Owned reports whether this shard is the one that judges and counts this execution
// (executions above the shard depth run on every shard, because they reveal the tree).
func (c *Chooser) Owned() bool {
	if c.opt == nil || c.opt.Mine == nil || c.opt.ShardDepth <= 0 {
		return true
	}
	d := c.opt.ShardDepth
	if d > len(c.Trail) {
		d = len(c.Trail)
	}
	return c.opt.Mine(c.Trail[:d])
}

// Options for Explore. MaxDev < 0: unbounded. Mine decides, from the first ShardDepth
// choices, whether this shard owns an execution; subtrees owned by other shards are skipped.
type Options struct {
	MaxDev     int
	ShardDepth int
	Mine       func(prefix []int) bool
	Stop       func() bool // checked between executions; true ends the exploration early
	// OnDiverge, when set, makes replay divergence non-fatal: the execution is retried up to four
	// times; if it still diverges the prefix is reported here and its subtree is skipped.
	OnDiverge func(prefix []int)
}

// Explore runs `run` once for every path of the choice tree (within the deviation bound).
// It returns the number of executions and whether the exploration was complete.
func Explore(opt Options, run func(c *Chooser)) (int, bool) {
	n := 0
	prefix := []int{}
	var trail, widths []int
	var free []bool
	var labels []string
	for {
		skip := opt.Mine != nil && opt.ShardDepth > 0 && len(prefix) >= opt.ShardDepth && !opt.Mine(prefix[:opt.ShardDepth])
		if !skip {
			var c *Chooser
			for attempt := 0; attempt < 5; attempt++ {
				c = &Chooser{prefix: prefix, opt: &opt, tolerant: opt.OnDiverge != nil}
				if len(labels) >= len(prefix) {
					c.expect = labels[:len(prefix)]
				}
				run(c)
				if len(c.Trail) < len(prefix) {
					c.Diverged = true
				}
				if !c.Diverged {
					break
				}
			}
			n++
			if c.Diverged {
				if opt.OnDiverge == nil {
					panic("seqx: execution ended before its replay prefix was consumed: not deterministic")
				}
				opt.OnDiverge(prefix)
				skip = true
			} else {
				trail, widths, free, labels = c.Trail, c.Widths, c.Free, c.Labels
			}
		}
		if skip {
			if len(labels) > len(prefix) {
				labels = labels[:len(prefix)]
			}
			// prefix = previous trail[:k] + [v+1]; the widths up to k are those of the previous run
			widths = widths[:len(prefix)]
			free = free[:len(prefix)]
			trail = prefix
		}
		if opt.Stop != nil && opt.Stop() {
			return n, false
		}
		next := -1
		dev := 0
		devAt := make([]int, len(trail))
		for i, v := range trail {
			devAt[i] = dev
			if v != 0 && !free[i] {
				dev++
			}
		}
		for i := len(trail) - 1; i >= 0; i-- {
			if trail[i]+1 < widths[i] {
				d := devAt[i] + 1
				if free[i] {
					d = devAt[i]
				}
				if opt.MaxDev >= 0 && d > opt.MaxDev {
					continue
				}
				next = i
				break
			}
		}
		if next < 0 {
			return n, true
		}
		prefix = append(append([]int{}, trail[:next]...), trail[next]+1)
	}
}
