// Package memconn is an in-memory, buffered, full-duplex net.Conn pair. It blocks only on
// sync.Cond (durably blocking inside testing/synctest bubbles). Deadlines are accepted and
// ignored. Cut() makes both directions fail.
package memconn

import (
	"io"
	"net"
	"sync"
	"time"
)

type half struct {
	mu     sync.Mutex
	cond   *sync.Cond
	buf    []byte
	closed bool  // writer closed: reader drains then gets EOF
	err    error // cut: both sides fail at once
	total  int64
}

func newHalf() *half {
	h := &half{}
	h.cond = sync.NewCond(&h.mu)
	return h
}

type Conn struct {
	r, w   *half
	name   string
	peer   *Conn
	closed bool
}

type addr string

func (a addr) Network() string { return "mem" }
func (a addr) String() string  { return string(a) }

// Pair returns the two ends of a connection.
func Pair(name string) (*Conn, *Conn) {
	a, b := newHalf(), newHalf()
	c1 := &Conn{r: a, w: b, name: name + "/client"}
	c2 := &Conn{r: b, w: a, name: name + "/server"}
	c1.peer, c2.peer = c2, c1
	return c1, c2
}

func (c *Conn) Read(p []byte) (int, error) {
	h := c.r
	h.mu.Lock()
	defer h.mu.Unlock()
	for len(h.buf) == 0 {
		if h.err != nil {
			return 0, h.err
		}
		if h.closed {
			return 0, io.EOF
		}
		if len(p) == 0 {
			return 0, nil
		}
		h.cond.Wait()
	}
	n := copy(p, h.buf)
	h.buf = h.buf[n:]
	return n, nil
}

func (c *Conn) Write(p []byte) (int, error) {
	h := c.w
	h.mu.Lock()
	defer h.mu.Unlock()
	if h.err != nil {
		return 0, h.err
	}
	if h.closed {
		return 0, io.ErrClosedPipe
	}
	h.buf = append(h.buf, p...)
	h.total += int64(len(p))
	h.cond.Broadcast()
	return len(p), nil
}

// Close closes this end: the peer reads EOF after draining, writes to it fail.
func (c *Conn) Close() error {
	for _, h := range []*half{c.w, c.r} {
		h.mu.Lock()
		h.closed = true
		h.cond.Broadcast()
		h.mu.Unlock()
	}
	return nil
}

// Cut breaks the connection: pending and future reads/writes on both ends fail.
func (c *Conn) Cut() {
	for _, h := range []*half{c.w, c.r} {
		h.mu.Lock()
		h.err = io.ErrUnexpectedEOF
		h.buf = nil
		h.cond.Broadcast()
		h.mu.Unlock()
	}
}

// Written is the number of bytes this end has written so far.
func (c *Conn) Written() int64 {
	c.w.mu.Lock()
	defer c.w.mu.Unlock()
	return c.w.total
}

// Pending is the number of bytes written to this end and not yet read by it.
func (c *Conn) Pending() int {
	c.r.mu.Lock()
	defer c.r.mu.Unlock()
	return len(c.r.buf)
}

func (c *Conn) LocalAddr() net.Addr                { return addr(c.name) }
func (c *Conn) RemoteAddr() net.Addr               { return addr(c.name + "-peer") }
func (c *Conn) SetDeadline(t time.Time) error      { return nil }
func (c *Conn) SetReadDeadline(t time.Time) error  { return nil }
func (c *Conn) SetWriteDeadline(t time.Time) error { return nil }
