// Package respref is a RESP recogniser written from the protocol description, independent of
// pkg/redis. It is three-valued so that an oracle built on it never demands more than the
// property states:
//   Valid       a RESP value (or a non-empty inline command line), possibly preceded by
//               keep-alive '\n' bytes; Tree and Consumed are defined
//   Malformed   exactly the statement's list: missing CR LF, length below -1, non-numeric
//               length, unknown type byte inside an array
//   Truncated   the input ends inside a value
//   Unspecified anything the statement is silent about (CR inside a simple string, "+1" as a
//               number, an empty inline line, '\n' between array elements, non-numeric ':' ints)
package respref

import "strconv"

const (
	Valid = iota
	Malformed
	Truncated
	Unspecified
)

var StatusName = []string{"valid", "malformed", "truncated", "unspecified"}

// Node is a RESP value tree. Kind is one of '+', '-', ':', '$', '*'; inline commands are '*'
// of '$'.
type Node struct {
	Kind  byte
	Text  []byte  // + - $
	Nil   bool    // $-1 / *-1
	Int   int64   // :
	Elems []*Node // *
}

type Result struct {
	Status   int
	Tree     *Node
	Consumed int
	Why      string
}

func Parse(b []byte) Result {
	i := 0
	for i < len(b) && b[i] == '\n' {
		i++
	}
	if i == len(b) {
		return Result{Status: Truncated, Why: "no value"}
	}
	n, st, j, why := parseAt(b, i, 0)
	return Result{Status: st, Tree: n, Consumed: j, Why: why}
}

// line returns the text before CRLF and the index after it.
func line(b []byte, i int) (txt []byte, next int, st int, why string) {
	j := i
	for j < len(b) && b[j] != '\n' {
		j++
	}
	if j == len(b) {
		return nil, 0, Truncated, "no LF"
	}
	if j == i || b[j-1] != '\r' {
		return nil, 0, Malformed, "LF without CR"
	}
	txt = b[i : j-1]
	return txt, j + 1, Valid, ""
}

func hasCR(t []byte) bool {
	for _, c := range t {
		if c == '\r' {
			return true
		}
	}
	return false
}

// number classifies a decimal: strict form -?[0-9]+ that fits int64 is Valid; [+][0-9]+ is
// Unspecified; out-of-range and everything else is malformed.
func number(t []byte) (int64, int) {
	if len(t) == 0 {
		return 0, Malformed
	}
	s := t
	signed := false
	if s[0] == '-' || s[0] == '+' {
		signed = true
		s = s[1:]
	}
	if len(s) == 0 {
		return 0, Malformed
	}
	for _, c := range s {
		if c < '0' || c > '9' {
			return 0, Malformed
		}
	}
	if signed && t[0] == '+' {
		return 0, Unspecified
	}
	v, err := strconv.ParseInt(string(t), 10, 64)
	if err != nil {
		// well-formed digits that do not fit an int64: no value can stand for them
		return 0, Malformed
	}
	return v, Valid
}

// outOfRange: -?[0-9]+ that does not fit an int64.
func outOfRange(t []byte) bool {
	s := t
	if len(s) > 0 && s[0] == '-' {
		s = s[1:]
	}
	if len(s) == 0 {
		return false
	}
	for _, c := range s {
		if c < '0' || c > '9' {
			return false
		}
	}
	_, err := strconv.ParseInt(string(t), 10, 64)
	return err != nil
}

func parseAt(b []byte, i int, depth int) (*Node, int, int, string) {
	if i >= len(b) {
		return nil, Truncated, 0, "no type byte"
	}
	t := b[i]
	switch t {
	case '+', '-':
		txt, next, st, why := line(b, i+1)
		if st != Valid {
			return nil, st, 0, why
		}
		if hasCR(txt) {
			return nil, Unspecified, 0, "CR inside simple string"
		}
		return &Node{Kind: t, Text: txt}, Valid, next, ""
	case ':':
		txt, next, st, why := line(b, i+1)
		if st != Valid {
			return nil, st, 0, why
		}
		v, ns := number(txt)
		if ns != Valid {
			if outOfRange(txt) {
				return nil, Malformed, 0, "integer out of range"
			}
			return nil, Unspecified, 0, "odd integer"
		}
		return &Node{Kind: ':', Int: v}, Valid, next, ""
	case '$':
		txt, next, st, why := line(b, i+1)
		if st != Valid {
			return nil, st, 0, why
		}
		v, ns := number(txt)
		if ns == Malformed {
			return nil, Malformed, 0, "non-numeric length"
		}
		if ns != Valid {
			return nil, Unspecified, 0, "odd length"
		}
		if v < -1 {
			return nil, Malformed, 0, "length below -1"
		}
		if v == -1 {
			return &Node{Kind: '$', Nil: true}, Valid, next, ""
		}
		if v > int64(len(b)) || next+int(v)+2 > len(b) {
			return nil, Truncated, 0, "bulk body"
		}
		body := b[next : next+int(v)]
		if b[next+int(v)] != '\r' || b[next+int(v)+1] != '\n' {
			return nil, Malformed, 0, "bulk without CRLF"
		}
		return &Node{Kind: '$', Text: body}, Valid, next + int(v) + 2, ""
	case '*':
		txt, next, st, why := line(b, i+1)
		if st != Valid {
			return nil, st, 0, why
		}
		v, ns := number(txt)
		if ns == Malformed {
			return nil, Malformed, 0, "non-numeric length"
		}
		if ns != Valid {
			return nil, Unspecified, 0, "odd length"
		}
		if v < -1 {
			return nil, Malformed, 0, "length below -1"
		}
		if v == -1 {
			return &Node{Kind: '*', Nil: true}, Valid, next, ""
		}
		n := &Node{Kind: '*', Elems: []*Node{}}
		for k := int64(0); k < v; k++ {
			if next >= len(b) {
				return nil, Truncated, 0, "array element"
			}
			c := b[next]
			if c == '\n' {
				return nil, Unspecified, 0, "LF between array elements"
			}
			if c != '+' && c != '-' && c != ':' && c != '$' && c != '*' {
				return nil, Malformed, 0, "unknown type inside array"
			}
			e, est, enext, ewhy := parseAt(b, next, depth+1)
			if est != Valid {
				return nil, est, 0, ewhy
			}
			n.Elems = append(n.Elems, e)
			next = enext
		}
		return n, Valid, next, ""
	default:
		if depth != 0 {
			return nil, Malformed, 0, "unknown type inside array"
		}
		txt, next, st, why := line(b, i)
		if st != Valid {
			return nil, st, 0, why
		}
		if hasCR(txt) {
			return nil, Unspecified, 0, "CR inside inline line"
		}
		n := &Node{Kind: '*', Elems: []*Node{}}
		l := 0
		for r := 0; r <= len(txt); r++ {
			if r == len(txt) || txt[r] == ' ' {
				if l < r {
					n.Elems = append(n.Elems, &Node{Kind: '$', Text: txt[l:r]})
				}
				l = r + 1
			}
		}
		if len(n.Elems) == 0 {
			return nil, Unspecified, 0, "empty inline line"
		}
		return n, Valid, next, ""
	}
}

// Encode renders a tree in canonical RESP (independent encoder, used for round trips).
func Encode(n *Node) []byte {
	var out []byte
	switch n.Kind {
	case '+', '-':
		out = append(out, n.Kind)
		out = append(out, n.Text...)
		out = append(out, '\r', '\n')
	case ':':
		out = append(out, ':')
		out = append(out, strconv.FormatInt(n.Int, 10)...)
		out = append(out, '\r', '\n')
	case '$':
		if n.Nil {
			return []byte("$-1\r\n")
		}
		out = append(out, '$')
		out = append(out, strconv.Itoa(len(n.Text))...)
		out = append(out, '\r', '\n')
		out = append(out, n.Text...)
		out = append(out, '\r', '\n')
	case '*':
		if n.Nil {
			return []byte("*-1\r\n")
		}
		out = append(out, '*')
		out = append(out, strconv.Itoa(len(n.Elems))...)
		out = append(out, '\r', '\n')
		for _, e := range n.Elems {
			out = append(out, Encode(e)...)
		}
	}
	return out
}
