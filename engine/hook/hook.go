// Package hook carries the seams the overlay installs into the code under test: process exit
// (pkg/libs/log), dialing (redis-shake/common) and the sender's timer case (redis-shake/dbSync).
package hook

import (
	"net"
	"os"
	"runtime"
	"sync"
)

// ExitError is recorded when the code under test calls log.Panic* (which is os.Exit(1) in
// production). The calling goroutine is ended with runtime.Goexit().
var (
	mu       sync.Mutex
	exitHook func(code int)
	exits    int
	dialHook func(network, addr string) (net.Conn, error, bool)
)

// SetExitHook installs f; f is called on the goroutine that wanted to exit, before Goexit.
func SetExitHook(f func(code int)) {
	mu.Lock()
	exitHook = f
	mu.Unlock()
}

// Exits returns how many times the tool tried to exit since the last ResetExits.
func Exits() int {
	mu.Lock()
	defer mu.Unlock()
	return exits
}

func ResetExits() {
	mu.Lock()
	exits = 0
	mu.Unlock()
}

func Exit(code int) {
	mu.Lock()
	f := exitHook
	exits++
	mu.Unlock()
	if f == nil {
		os.Exit(code)
	}
	f(code)
	runtime.Goexit()
}

// SetDialHook installs f; f returns ok=false to fall through to the real dialer.
func SetDialHook(f func(network, addr string) (net.Conn, error, bool)) {
	mu.Lock()
	dialHook = f
	mu.Unlock()
}

func Dial(network, addr string) (net.Conn, error, bool) {
	mu.Lock()
	f := dialHook
	mu.Unlock()
	if f == nil {
		return nil, nil, false
	}
	return f(network, addr)
}

// Timer-case seam (redis-shake/dbSync): called by the sender at the start of every select case
// that fires on a timer/ticker channel next to the command queue, i.e. at the preemption point
// between "the flush timer fired" and "the sender looks at the queue". The harness may let the
// source deliver more bytes exactly there.
var timerCaseHook func()

func SetTimerCaseHook(f func()) {
	mu.Lock()
	timerCaseHook = f
	mu.Unlock()
}

func TimerCase() {
	mu.Lock()
	f := timerCaseHook
	mu.Unlock()
	if f != nil {
		f()
	}
}
