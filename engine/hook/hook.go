// Package hook carries the three seams the overlay installs into the code under test:
// process exit (pkg/libs/log), dialing (redis-shake/common) and nothing else.
package hook

import (
	"net"
	"os"
	"runtime"
	"sync"
)

// ExitError is recorded when the code under test calls log.Panic* (which is os.Exit(1) in
// production). The calling goroutine is ended with runtime.Goexit().
var (
	mu       sync.Mutex
	exitHook func(code int)
	exits    int
	dialHook func(network, addr string) (net.Conn, error, bool)
)

// SetExitHook installs f; f is called on the goroutine that wanted to exit, before Goexit.
func SetExitHook(f func(code int)) {
	mu.Lock()
	exitHook = f
	mu.Unlock()
}

// Exits returns how many times the tool tried to exit since the last ResetExits.
func Exits() int {
	mu.Lock()
	defer mu.Unlock()
	return exits
}

func ResetExits() {
	mu.Lock()
	exits = 0
	mu.Unlock()
}

func Exit(code int) {
	mu.Lock()
	f := exitHook
	exits++
	mu.Unlock()
	if f == nil {
		os.Exit(code)
	}
	f(code)
	runtime.Goexit()
}

// SetDialHook installs f; f returns ok=false to fall through to the real dialer.
func SetDialHook(f func(network, addr string) (net.Conn, error, bool)) {
	mu.Lock()
	dialHook = f
	mu.Unlock()
}

func Dial(network, addr string) (net.Conn, error, bool) {
	mu.Lock()
	f := dialHook
	mu.Unlock()
	if f == nil {
		return nil, nil, false
	}
	return f(network, addr)
}
