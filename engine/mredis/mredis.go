// Package mredis is a small model Redis: 16+ logical databases, the value types and commands
// the tool uses, Redis' RESTORE/BUSYKEY/MULTI semantics, served as a RESP server over any
// net.Conn. It is the reference model behind the target (and rump source) side of the checks.
// RESTORE resolves payloads through the payload registry filled by rdbgen users, so the model
// never decodes compact encodings itself. Go 1.14 dialect, standard library only.
package mredis

import (
	"bufio"
	"bytes"
	"encoding/binary"
	"fmt"
	"io"
	"net"
	"sort"
	"strconv"
	"strings"
	"sync"
	"time"

	"github.com/alibaba/RedisShake/verifrt/crcref"
	"github.com/alibaba/RedisShake/verifrt/rdbgen"
)

// Entry is one key's value.
type Entry struct {
	Kind     string // string list set hash zset stream opaque
	Str      []byte
	List     [][]byte
	Set      map[string]bool
	Hash     map[string][]byte
	HashOrd  []string // insertion order of hash fields (for deterministic HGETALL)
	ZSet     map[string]float64
	Payload  []byte // for opaque/stream: the type|raw bytes it was restored from
	ExpireAt int64  // absolute ms, 0 = none
	Idle     int64
	Freq     int64
}

// Cmd is one received command.
type Cmd struct {
	Conn int
	DB   int // db selected on that connection when the command was received
	Argv [][]byte
	InTx bool // queued inside MULTI
}

func (c Cmd) Name() string { return strings.ToLower(string(c.Argv[0])) }

func (c Cmd) String() string {
	s := make([]string, len(c.Argv))
	for i, a := range c.Argv {
		if len(a) > 40 {
			s[i] = fmt.Sprintf("%q..(%d)", a[:16], len(a))
		} else {
			s[i] = strconv.Quote(string(a))
		}
	}
	return fmt.Sprintf("[c%d db%d] %s", c.Conn, c.DB, strings.Join(s, " "))
}

type Options struct {
	MaxRDBVersion int             // payload versions above are refused (9 = Redis 5)
	RejectTypes   map[byte]bool   // RDB types the target does not know: "Bad data format"
	NoReplace     bool            // RESTORE ... REPLACE is a syntax error (Redis < 3.0)
	NoIdleFreq    bool            // IDLETIME/FREQ are syntax errors (Redis < 5.0)
	OldBusyText   bool            // 2.8 wording of the BUSYKEY error
	Password      string          // AUTH required when non-empty
	Now           func() int64    // ms clock; default time.Now
	Hold          bool            // hold every request until granted
	ReplyHook     func(c Cmd) []byte // non-nil return value replaces execution and is sent verbatim
	Registry      *Registry
	Unknown       map[string]bool // command names this server does not know: answered like Redis >= 5 does, echoing the arguments
}

// Registry maps type|raw payload bodies to logical values.
type Registry struct {
	mu sync.Mutex
	m  map[string]*rdbgen.Logical
}

func NewRegistry() *Registry { return &Registry{m: map[string]*rdbgen.Logical{}} }

func (r *Registry) Add(t byte, raw []byte, lg *rdbgen.Logical) {
	r.mu.Lock()
	r.m[string(append([]byte{t}, raw...))] = lg
	r.mu.Unlock()
}

func (r *Registry) Get(body []byte) *rdbgen.Logical {
	r.mu.Lock()
	defer r.mu.Unlock()
	return r.m[string(body)]
}

type pending struct {
	cmd   Cmd
	grant chan struct{}
}

type Server struct {
	mu       sync.Mutex
	opt      Options
	dbs      map[int]map[string]*Entry
	received []Cmd
	applied  []Cmd // commands that were executed (outside or at EXEC), in execution order
	scripts  [][]byte
	nconn    int
	pend     []*pending
	conns    map[int]net.Conn
	scanHook func(db int, cursor string) (next string, keys []string, ok bool)
}

func New(opt Options) *Server {
	if opt.MaxRDBVersion == 0 {
		opt.MaxRDBVersion = 9
	}
	if opt.Now == nil {
		opt.Now = func() int64 { return time.Now().UnixNano() / int64(time.Millisecond) }
	}
	if opt.Registry == nil {
		opt.Registry = NewRegistry()
	}
	return &Server{opt: opt, dbs: map[int]map[string]*Entry{}, conns: map[int]net.Conn{}}
}

func (s *Server) Registry() *Registry { return s.opt.Registry }

// SetScanHook lets a harness script SCAN pagination.
func (s *Server) SetScanHook(f func(db int, cursor string) (string, []string, bool)) { s.scanHook = f }

func (s *Server) db(n int) map[string]*Entry {
	d := s.dbs[n]
	if d == nil {
		d = map[string]*Entry{}
		s.dbs[n] = d
	}
	return d
}

// Get returns the live entry (expired keys are treated as absent).
func (s *Server) get(db int, key string) *Entry {
	e := s.db(db)[key]
	if e != nil && e.ExpireAt != 0 && e.ExpireAt <= s.opt.Now() {
		delete(s.db(db), key)
		return nil
	}
	return e
}

// Lookup is the harness view of a key.
func (s *Server) Lookup(db int, key string) *Entry {
	s.mu.Lock()
	defer s.mu.Unlock()
	return s.db(db)[key]
}

// Put stores an entry directly (harness setup).
func (s *Server) Put(db int, key string, e *Entry) {
	s.mu.Lock()
	s.db(db)[key] = e
	s.mu.Unlock()
}

func (s *Server) Received() []Cmd {
	s.mu.Lock()
	defer s.mu.Unlock()
	return append([]Cmd{}, s.received...)
}

func (s *Server) Applied() []Cmd {
	s.mu.Lock()
	defer s.mu.Unlock()
	return append([]Cmd{}, s.applied...)
}

func (s *Server) Scripts() [][]byte {
	s.mu.Lock()
	defer s.mu.Unlock()
	return append([][]byte{}, s.scripts...)
}

func (s *Server) Keys(db int) []string {
	s.mu.Lock()
	defer s.mu.Unlock()
	var out []string
	for k := range s.db(db) {
		out = append(out, k)
	}
	sort.Strings(out)
	return out
}

// Snapshot is a canonical rendering of the whole keyspace (TTL shown as absolute ms).
func (s *Server) Snapshot() string {
	s.mu.Lock()
	defer s.mu.Unlock()
	var dbs []int
	for n, d := range s.dbs {
		if len(d) > 0 {
			dbs = append(dbs, n)
		}
	}
	sort.Ints(dbs)
	var b bytes.Buffer
	for _, n := range dbs {
		var keys []string
		for k := range s.dbs[n] {
			keys = append(keys, k)
		}
		sort.Strings(keys)
		for _, k := range keys {
			fmt.Fprintf(&b, "db%d %q = %s\n", n, k, s.dbs[n][k].Canon())
		}
	}
	return b.String()
}

// Canon renders an entry canonically (sets/hashes/zsets sorted).
func (e *Entry) Canon() string {
	var b bytes.Buffer
	b.WriteString(e.Kind)
	switch e.Kind {
	case "string":
		fmt.Fprintf(&b, " %q", e.Str)
	case "list":
		for _, x := range e.List {
			fmt.Fprintf(&b, " %q", x)
		}
	case "set":
		var m []string
		for k := range e.Set {
			m = append(m, k)
		}
		sort.Strings(m)
		for _, x := range m {
			fmt.Fprintf(&b, " %q", x)
		}
	case "hash":
		var m []string
		for k := range e.Hash {
			m = append(m, k)
		}
		sort.Strings(m)
		for _, x := range m {
			fmt.Fprintf(&b, " %q:%q", x, e.Hash[x])
		}
	case "zset":
		var m []string
		for k := range e.ZSet {
			m = append(m, k)
		}
		sort.Strings(m)
		for _, x := range m {
			fmt.Fprintf(&b, " %q:%v", x, e.ZSet[x])
		}
	default:
		fmt.Fprintf(&b, " payload:%x", crcref.CRC64(0, e.Payload))
	}
	if e.ExpireAt != 0 {
		fmt.Fprintf(&b, " expire@%d", e.ExpireAt)
	}
	return b.String()
}

// FromLogical builds an entry from a generator's logical value.
func FromLogical(lg *rdbgen.Logical, body []byte) *Entry {
	e := &Entry{Kind: lg.Kind}
	switch lg.Kind {
	case "string":
		e.Str = append([]byte{}, lg.Str...)
	case "list":
		for _, x := range lg.Elems {
			e.List = append(e.List, append([]byte{}, x...))
		}
	case "set":
		e.Set = map[string]bool{}
		for _, x := range lg.Elems {
			e.Set[string(x)] = true
		}
	case "hash":
		e.Hash = map[string][]byte{}
		for _, p := range lg.Pairs {
			if _, ok := e.Hash[string(p[0])]; !ok {
				e.HashOrd = append(e.HashOrd, string(p[0]))
			}
			e.Hash[string(p[0])] = append([]byte{}, p[1]...)
		}
	case "zset":
		e.ZSet = map[string]float64{}
		for _, z := range lg.ZSet {
			e.ZSet[string(z.Member)] = z.Score
		}
	default:
		e.Payload = append([]byte{}, body...)
	}
	return e
}

// ---------------------------------------------------------------------------------------
// serving

// Serve handles one connection until it is closed. Call it on its own goroutine.
func (s *Server) Serve(c net.Conn) {
	s.mu.Lock()
	s.nconn++
	id := s.nconn
	s.conns[id] = c
	s.mu.Unlock()
	br := bufio.NewReader(c)
	st := &connState{id: id, authed: s.opt.Password == ""}
	for {
		argv, err := readCommand(br)
		if err != nil {
			return
		}
		if len(argv) == 0 {
			continue
		}
		cmd := Cmd{Conn: id, DB: st.db, Argv: argv, InTx: st.multi}
		s.mu.Lock()
		s.received = append(s.received, cmd)
		var p *pending
		if s.opt.Hold {
			p = &pending{cmd: cmd, grant: make(chan struct{})}
			s.pend = append(s.pend, p)
		}
		s.mu.Unlock()
		if p != nil {
			<-p.grant
		}
		s.mu.Lock()
		var reply []byte
		if s.opt.ReplyHook != nil {
			reply = s.opt.ReplyHook(cmd)
		}
		if reply == nil {
			reply = s.handle(st, cmd)
		}
		s.mu.Unlock()
		if string(reply) == "\x00CUT" {
			if cc, ok := c.(interface{ Cut() }); ok {
				cc.Cut()
			} else {
				c.Close()
			}
			return
		}
		if _, err := c.Write(reply); err != nil {
			return
		}
	}
}

// Pending lists held requests in arrival order.
func (s *Server) Pending() []Cmd {
	s.mu.Lock()
	defer s.mu.Unlock()
	var out []Cmd
	for _, p := range s.pend {
		out = append(out, p.cmd)
	}
	return out
}

// Grant releases the i-th held request.
func (s *Server) Grant(i int) {
	s.mu.Lock()
	p := s.pend[i]
	s.pend = append(s.pend[:i:i], s.pend[i+1:]...)
	s.mu.Unlock()
	close(p.grant)
}

type connState struct {
	id     int
	db     int
	multi  bool
	queue  []Cmd
	authed bool
}

func readCommand(br *bufio.Reader) ([][]byte, error) {
	line, err := br.ReadBytes('\n')
	if err != nil {
		return nil, err
	}
	if len(line) < 2 || line[len(line)-2] != '\r' {
		if len(bytes.TrimSpace(line)) == 0 {
			return nil, nil
		}
		return nil, fmt.Errorf("protocol error: %q", line)
	}
	line = line[:len(line)-2]
	if len(line) == 0 {
		return nil, nil
	}
	if line[0] != '*' {
		// inline command
		var out [][]byte
		for _, f := range bytes.Fields(line) {
			out = append(out, f)
		}
		return out, nil
	}
	n, err := strconv.Atoi(string(line[1:]))
	if err != nil || n < 0 {
		return nil, fmt.Errorf("protocol error: %q", line)
	}
	out := make([][]byte, 0, n)
	for i := 0; i < n; i++ {
		h, err := br.ReadBytes('\n')
		if err != nil {
			return nil, err
		}
		if len(h) < 3 || h[0] != '$' {
			return nil, fmt.Errorf("protocol error: %q", h)
		}
		l, err := strconv.Atoi(string(h[1 : len(h)-2]))
		if err != nil || l < 0 {
			return nil, fmt.Errorf("protocol error: %q", h)
		}
		b := make([]byte, l+2)
		if _, err := io.ReadFull(br, b); err != nil {
			return nil, err
		}
		out = append(out, b[:l])
	}
	return out, nil
}

// reply builders
func rOK() []byte              { return []byte("+OK\r\n") }
func rErr(s string) []byte     { return []byte("-" + s + "\r\n") }
func rInt(n int64) []byte      { return []byte(":" + strconv.FormatInt(n, 10) + "\r\n") }
func rStatus(s string) []byte  { return []byte("+" + s + "\r\n") }
func rNil() []byte             { return []byte("$-1\r\n") }
func rBulk(b []byte) []byte {
	out := []byte("$" + strconv.Itoa(len(b)) + "\r\n")
	out = append(out, b...)
	return append(out, '\r', '\n')
}
func rArrayHdr(n int) []byte { return []byte("*" + strconv.Itoa(n) + "\r\n") }

var writeCmds = map[string]bool{}

func (s *Server) handle(st *connState, cmd Cmd) []byte {
	name := cmd.Name()
	if s.opt.Unknown[name] {
		// Redis looks the command up before it checks authentication
		msg := "ERR unknown command `" + string(cmd.Argv[0]) + "`, with args beginning with: "
		for _, a := range cmd.Argv[1:] {
			msg += "`" + string(a) + "`, "
		}
		return rErr(msg)
	}
	if !st.authed && name != "auth" {
		return rErr("NOAUTH Authentication required.")
	}
	switch name {
	case "auth":
		if len(cmd.Argv) == 2 && string(cmd.Argv[1]) == s.opt.Password && s.opt.Password != "" {
			st.authed = true
			return rOK()
		}
		if s.opt.Password == "" {
			return rErr("ERR Client sent AUTH, but no password is set")
		}
		return rErr("ERR invalid password")
	case "multi":
		if st.multi {
			return rErr("ERR MULTI calls can not be nested")
		}
		st.multi = true
		st.queue = nil
		return rOK()
	case "discard":
		if !st.multi {
			return rErr("ERR DISCARD without MULTI")
		}
		st.multi = false
		st.queue = nil
		return rOK()
	case "exec":
		if !st.multi {
			return rErr("ERR EXEC without MULTI")
		}
		st.multi = false
		out := rArrayHdr(len(st.queue))
		for _, q := range st.queue {
			q.DB = st.db
			out = append(out, s.exec(st, q)...)
		}
		st.queue = nil
		return out
	}
	if st.multi {
		st.queue = append(st.queue, cmd)
		return rStatus("QUEUED")
	}
	return s.exec(st, cmd)
}

func (s *Server) exec(st *connState, cmd Cmd) []byte {
	cmd.DB = st.db
	cmd.InTx = false
	name := cmd.Name()
	a := cmd.Argv
	argc := len(a)
	now := s.opt.Now()
	db := s.db(st.db)
	record := func() { s.applied = append(s.applied, cmd) }
	wrongType := rErr("WRONGTYPE Operation against a key holding the wrong kind of value")
	arity := rErr("ERR wrong number of arguments for '" + name + "' command")
	switch name {
	case "ping":
		record()
		return rStatus("PONG")
	case "select":
		if argc != 2 {
			return arity
		}
		n, err := strconv.Atoi(string(a[1]))
		if err != nil || n < 0 || n > 100000 {
			return rErr("ERR invalid DB index")
		}
		st.db = n
		record()
		return rOK()
	case "echo":
		return rBulk(a[1])
	case "flushall":
		s.dbs = map[int]map[string]*Entry{}
		record()
		return rOK()
	case "exists":
		var n int64
		for _, k := range a[1:] {
			if s.get(st.db, string(k)) != nil {
				n++
			}
		}
		return rInt(n)
	case "type":
		e := s.get(st.db, string(a[1]))
		if e == nil {
			return rStatus("none")
		}
		return rStatus(e.Kind)
	case "del", "unlink":
		record()
		var n int64
		for _, k := range a[1:] {
			if s.get(st.db, string(k)) != nil {
				delete(db, string(k))
				n++
			}
		}
		return rInt(n)
	case "set":
		if argc < 3 {
			return arity
		}
		record()
		e := &Entry{Kind: "string", Str: append([]byte{}, a[2]...)}
		for i := 3; i+1 < argc; i += 2 {
			v, _ := strconv.ParseInt(string(a[i+1]), 10, 64)
			switch strings.ToLower(string(a[i])) {
			case "ex":
				e.ExpireAt = now + v*1000
			case "px":
				e.ExpireAt = now + v
			}
		}
		db[string(a[1])] = e
		return rOK()
	case "mset":
		if argc < 3 || argc%2 != 1 {
			return arity
		}
		record()
		for i := 1; i+1 < argc; i += 2 {
			db[string(a[i])] = &Entry{Kind: "string", Str: append([]byte{}, a[i+1]...)}
		}
		return rOK()
	case "get":
		e := s.get(st.db, string(a[1]))
		if e == nil {
			return rNil()
		}
		if e.Kind != "string" {
			return wrongType
		}
		return rBulk(e.Str)
	case "incr", "decr":
		record()
		e := s.get(st.db, string(a[1]))
		var v int64
		if e != nil {
			if e.Kind != "string" {
				return wrongType
			}
			var err error
			v, err = strconv.ParseInt(string(e.Str), 10, 64)
			if err != nil {
				return rErr("ERR value is not an integer or out of range")
			}
		} else {
			e = &Entry{Kind: "string"}
			db[string(a[1])] = e
		}
		if name == "incr" {
			v++
		} else {
			v--
		}
		e.Str = []byte(strconv.FormatInt(v, 10))
		return rInt(v)
	case "append":
		record()
		e := s.get(st.db, string(a[1]))
		if e == nil {
			e = &Entry{Kind: "string"}
			db[string(a[1])] = e
		} else if e.Kind != "string" {
			return wrongType
		}
		e.Str = append(e.Str, a[2]...)
		return rInt(int64(len(e.Str)))
	case "rpush", "lpush":
		if argc < 3 {
			return arity
		}
		record()
		e := s.get(st.db, string(a[1]))
		if e == nil {
			e = &Entry{Kind: "list"}
			db[string(a[1])] = e
		} else if e.Kind != "list" {
			return wrongType
		}
		for _, v := range a[2:] {
			if name == "rpush" {
				e.List = append(e.List, append([]byte{}, v...))
			} else {
				e.List = append([][]byte{append([]byte{}, v...)}, e.List...)
			}
		}
		return rInt(int64(len(e.List)))
	case "sadd":
		if argc < 3 {
			return arity
		}
		record()
		e := s.get(st.db, string(a[1]))
		if e == nil {
			e = &Entry{Kind: "set", Set: map[string]bool{}}
			db[string(a[1])] = e
		} else if e.Kind != "set" {
			return wrongType
		}
		var n int64
		for _, v := range a[2:] {
			if !e.Set[string(v)] {
				e.Set[string(v)] = true
				n++
			}
		}
		return rInt(n)
	case "hset", "hmset":
		if argc < 4 || argc%2 != 0 {
			return arity
		}
		record()
		e := s.get(st.db, string(a[1]))
		if e == nil {
			e = &Entry{Kind: "hash", Hash: map[string][]byte{}}
			db[string(a[1])] = e
		} else if e.Kind != "hash" {
			return wrongType
		}
		var n int64
		for i := 2; i+1 < argc; i += 2 {
			if _, ok := e.Hash[string(a[i])]; !ok {
				n++
				e.HashOrd = append(e.HashOrd, string(a[i]))
			}
			e.Hash[string(a[i])] = append([]byte{}, a[i+1]...)
		}
		if name == "hmset" {
			return rOK()
		}
		return rInt(n)
	case "hdel":
		record()
		e := s.get(st.db, string(a[1]))
		if e == nil {
			return rInt(0)
		}
		if e.Kind != "hash" {
			return wrongType
		}
		var n int64
		for _, f := range a[2:] {
			if _, ok := e.Hash[string(f)]; ok {
				delete(e.Hash, string(f))
				for i, x := range e.HashOrd {
					if x == string(f) {
						e.HashOrd = append(e.HashOrd[:i:i], e.HashOrd[i+1:]...)
						break
					}
				}
				n++
			}
		}
		if len(e.Hash) == 0 {
			delete(db, string(a[1]))
		}
		return rInt(n)
	case "hgetall":
		e := s.get(st.db, string(a[1]))
		if e == nil {
			return rArrayHdr(0)
		}
		if e.Kind != "hash" {
			return wrongType
		}
		out := rArrayHdr(2 * len(e.HashOrd))
		for _, f := range e.HashOrd {
			out = append(out, rBulk([]byte(f))...)
			out = append(out, rBulk(e.Hash[f])...)
		}
		return out
	case "zadd":
		if argc < 4 || argc%2 != 0 {
			return arity
		}
		e := s.get(st.db, string(a[1]))
		if e != nil && e.Kind != "zset" {
			return wrongType
		}
		type zm struct {
			m string
			f float64
		}
		var add []zm
		for i := 2; i+1 < argc; i += 2 {
			f, err := strconv.ParseFloat(string(a[i]), 64)
			if err != nil || f != f {
				return rErr("ERR value is not a valid float")
			}
			add = append(add, zm{string(a[i+1]), f})
		}
		record()
		if e == nil {
			e = &Entry{Kind: "zset", ZSet: map[string]float64{}}
			db[string(a[1])] = e
		}
		var n int64
		for _, z := range add {
			if _, ok := e.ZSet[z.m]; !ok {
				n++
			}
			e.ZSet[z.m] = z.f
		}
		return rInt(n)
	case "pexpire", "expire", "pexpireat", "expireat":
		if argc != 3 {
			return arity
		}
		v, err := strconv.ParseInt(string(a[2]), 10, 64)
		if err != nil {
			return rErr("ERR value is not an integer or out of range")
		}
		record()
		e := s.get(st.db, string(a[1]))
		if e == nil {
			return rInt(0)
		}
		switch name {
		case "pexpire":
			e.ExpireAt = now + v
		case "expire":
			e.ExpireAt = now + v*1000
		case "pexpireat":
			e.ExpireAt = v
		case "expireat":
			e.ExpireAt = v * 1000
		}
		if e.ExpireAt <= now {
			delete(db, string(a[1]))
		}
		return rInt(1)
	case "pttl":
		e := s.get(st.db, string(a[1]))
		if e == nil {
			return rInt(-2)
		}
		if e.ExpireAt == 0 {
			return rInt(-1)
		}
		return rInt(e.ExpireAt - now)
	case "script":
		if argc >= 3 && strings.ToLower(string(a[1])) == "load" {
			s.scripts = append(s.scripts, append([]byte{}, a[2]...))
			record()
			return rBulk([]byte(fmt.Sprintf("%040x", crcref.CRC64(0, a[2]))))
		}
		record()
		return rOK()
	case "restore", "restore-asking":
		return s.restore(st, cmd)
	case "dump":
		e := s.get(st.db, string(a[1]))
		if e == nil {
			return rNil()
		}
		return rBulk(s.DumpEntry(e))
	case "scan":
		cursor := string(a[1])
		if s.scanHook != nil {
			if next, keys, ok := s.scanHook(st.db, cursor); ok {
				out := rArrayHdr(2)
				out = append(out, rBulk([]byte(next))...)
				out = append(out, rArrayHdr(len(keys))...)
				for _, k := range keys {
					out = append(out, rBulk([]byte(k))...)
				}
				return out
			}
		}
		var keys []string
		for k := range db {
			if s.get(st.db, k) != nil {
				keys = append(keys, k)
			}
		}
		sort.Strings(keys)
		out := rArrayHdr(2)
		out = append(out, rBulk([]byte("0"))...)
		out = append(out, rArrayHdr(len(keys))...)
		for _, k := range keys {
			out = append(out, rBulk([]byte(k))...)
		}
		return out
	case "info":
		var b bytes.Buffer
		sec := ""
		if argc > 1 {
			sec = strings.ToLower(string(a[1]))
		}
		if sec == "" || sec == "server" {
			b.WriteString("# Server\r\nredis_version:5.0.7\r\n")
		}
		if sec == "" || sec == "keyspace" {
			b.WriteString("# Keyspace\r\n")
			var ns []int
			for n, d := range s.dbs {
				if len(d) > 0 {
					ns = append(ns, n)
				}
			}
			sort.Ints(ns)
			for _, n := range ns {
				fmt.Fprintf(&b, "db%d:keys=%d,expires=0,avg_ttl=0\r\n", n, len(s.dbs[n]))
			}
		}
		return rBulk(b.Bytes())
	case "config":
		return rArrayHdr(0)
	}
	// unknown commands are treated as writes that succeed
	record()
	return rOK()
}

func (s *Server) restore(st *connState, cmd Cmd) []byte {
	a := cmd.Argv
	if len(a) < 4 {
		return rErr("ERR wrong number of arguments for 'restore' command")
	}
	key := string(a[1])
	replace, absttl := false, false
	var idle, freq int64 = -1, -1
	for i := 4; i < len(a); i++ {
		switch strings.ToLower(string(a[i])) {
		case "replace":
			if s.opt.NoReplace {
				return rErr("ERR syntax error")
			}
			replace = true
		case "absttl":
			absttl = true
		case "idletime":
			if s.opt.NoIdleFreq || i+1 >= len(a) {
				return rErr("ERR syntax error")
			}
			v, err := strconv.ParseInt(string(a[i+1]), 10, 64)
			if err != nil || v < 0 {
				return rErr("ERR Invalid IDLETIME value, must be >= 0")
			}
			idle = v
			i++
		case "freq":
			if s.opt.NoIdleFreq || i+1 >= len(a) {
				return rErr("ERR syntax error")
			}
			v, err := strconv.ParseInt(string(a[i+1]), 10, 64)
			if err != nil || v < 0 || v > 255 {
				return rErr("ERR Invalid FREQ value, must be >= 0 and <= 255")
			}
			freq = v
			i++
		default:
			return rErr("ERR syntax error")
		}
	}
	if !replace && s.get(st.db, key) != nil {
		if s.opt.OldBusyText {
			return rErr("ERR Target key name is busy.")
		}
		return rErr("BUSYKEY Target key name already exists.")
	}
	ttl, err := strconv.ParseInt(string(a[2]), 10, 64)
	if err != nil {
		return rErr("ERR value is not an integer or out of range")
	}
	if ttl < 0 {
		return rErr("ERR Invalid TTL value, must be >= 0")
	}
	p := a[3]
	if len(p) < 10 {
		return rErr("ERR DUMP payload version or checksum are wrong")
	}
	ver := int(binary.LittleEndian.Uint16(p[len(p)-10:]))
	if ver > s.opt.MaxRDBVersion || crcref.CRC64(0, p[:len(p)-8]) != binary.LittleEndian.Uint64(p[len(p)-8:]) {
		return rErr("ERR DUMP payload version or checksum are wrong")
	}
	body := p[:len(p)-10]
	if s.opt.RejectTypes[body[0]] {
		return rErr("ERR Bad data format")
	}
	lg := s.opt.Registry.Get(body)
	if lg == nil {
		return rErr("ERR Bad data format")
	}
	e := FromLogical(lg, body)
	if ttl != 0 {
		if absttl {
			e.ExpireAt = ttl
		} else {
			e.ExpireAt = s.opt.Now() + ttl
		}
	}
	if idle >= 0 {
		e.Idle = idle
	}
	if freq >= 0 {
		e.Freq = freq
	}
	s.applied = append(s.applied, cmd)
	db := s.db(st.db)
	delete(db, key)
	// Redis: an empty aggregate is not stored; a key restored already expired is deleted
	if e.ExpireAt != 0 && e.ExpireAt <= s.opt.Now() {
		return rOK()
	}
	db[key] = e
	return rOK()
}

// DumpEntry serialises an entry as a DUMP payload (plain encodings) and registers it.
func (s *Server) DumpEntry(e *Entry) []byte {
	var v *rdbgen.Value
	raw := func(b []byte) rdbgen.Str { return rdbgen.RawStr(b, rdbgen.LCanon) }
	switch e.Kind {
	case "string":
		v = rdbgen.StringVal(raw(e.Str))
	case "list":
		var el []rdbgen.Str
		for _, x := range e.List {
			el = append(el, raw(x))
		}
		v = rdbgen.ListVal(el, rdbgen.LCanon)
	case "set":
		var m []string
		for k := range e.Set {
			m = append(m, k)
		}
		sort.Strings(m)
		var el []rdbgen.Str
		for _, x := range m {
			el = append(el, raw([]byte(x)))
		}
		v = rdbgen.SetVal(el, rdbgen.LCanon)
	case "hash":
		var el []rdbgen.Str
		for _, f := range e.HashOrd {
			el = append(el, raw([]byte(f)), raw(e.Hash[f]))
		}
		v = rdbgen.HashVal(el, rdbgen.LCanon)
	case "zset":
		var m []string
		for k := range e.ZSet {
			m = append(m, k)
		}
		sort.Strings(m)
		var el []rdbgen.Str
		var sc []float64
		for _, x := range m {
			el = append(el, raw([]byte(x)))
			sc = append(sc, e.ZSet[x])
		}
		v = rdbgen.ZSetVal(el, sc, true)
	default:
		return rdbgen.Dump(e.Payload[0], e.Payload[1:], 9)
	}
	s.opt.Registry.Add(v.Type, v.Raw, v.Log)
	return rdbgen.Dump(v.Type, v.Raw, 9)
}

// ReplayCommands applies a recorded command sequence (as received, possibly from several
// connections) to this server without any network: used to build the state a target is in
// after a connection or process cut. A MULTI block that is still open at the end is discarded,
// as Redis does when the client goes away.
func (s *Server) ReplayCommands(cmds []Cmd) {
	s.mu.Lock()
	defer s.mu.Unlock()
	states := map[int]*connState{}
	for _, c := range cmds {
		st := states[c.Conn]
		if st == nil {
			st = &connState{id: c.Conn, authed: true}
			states[c.Conn] = st
		}
		s.received = append(s.received, c)
		s.handle(st, Cmd{Conn: c.Conn, DB: st.db, Argv: c.Argv, InTx: st.multi})
	}
}

// SnapshotExcept is Snapshot without the keys for which skip returns true.
func (s *Server) SnapshotExcept(skip func(key string) bool) string {
	full := s.Snapshot()
	var out []string
	for _, line := range strings.Split(full, "\n") {
		if line == "" {
			continue
		}
		// line: db<n> "<key>" = ...
		i := strings.Index(line, " ")
		rest := line[i+1:]
		key, err := strconv.QuotedPrefix(rest)
		if err == nil {
			if k, err2 := strconv.Unquote(key); err2 == nil && skip(k) {
				continue
			}
		}
		out = append(out, line)
	}
	return strings.Join(out, "\n")
}

// Del removes a key. It takes no lock: it is meant to be called from inside a ReplyHook (which
// runs with the server locked), to make a key vanish between two commands.
func (s *Server) Del(db int, key string) { delete(s.db(db), key) }
