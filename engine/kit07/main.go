package kit07

import (
	"fmt"
	"runtime"
	"runtime/debug"
	"sort"
	"strings"
	"testing"

	"github.com/alibaba/RedisShake/pkg/libs/log"
	"github.com/alibaba/RedisShake/verifrt/ev"
	"github.com/alibaba/RedisShake/verifrt/seqx"
)

// Main is the body of TestVerif_C07 in both packages. mode is "sync" or "restore".
func Main(t *testing.T, mode string, fn func(c Case, file []byte, report func(error))) {
	defer ev.Flush("C07")
	log.SetLevel(log.LEVEL_NONE)
	if ev.ReplayFile() != "" {
		var c Case
		if err := ev.LoadReplay(&c); err != nil {
			t.Fatal(err)
		}
		for i := 0; i < 2; i++ {
			k, w, tr := Run(t, c, seqx.NewReplay(c.Trail), func(file []byte, report func(error)) { fn(c, file, report) })
			t.Logf("replay grants %v -> %s %s", tr, k, w)
			if k != "" {
				ev.Violate("C07|"+mode+"|"+k, w, c)
			}
		}
		return
	}
	dev := -1 // every grant order
	ev.Bound("grant_order_deviations", dev)
	scs := Scenarios()
	ev.Bound("scenarios", len(scs))
	var n, trans int64
	// which worker dequeues the next entry within one quiescent step is up to the Go scheduler;
	// with one P and the collector only running between executions it is reproducible
	debug.SetGCPercent(-1)
	defer debug.SetGCPercent(100)
	for si, sc := range scs {
		if !ev.Mine(int64(si)) {
			continue
		}
		sc := sc
		d := dev
		if sc.Workers == 1 {
			d = 0
		} else if len(sc.Keys) > 6 || sc.Workers > 3 {
			d = 4
		}
		hist := map[string]bool{}
		diverged := 0
		cnt, complete := seqx.Explore(seqx.Options{MaxDev: d, Stop: ev.OverBudget, OnDiverge: func([]int) { diverged++ }}, func(ch *seqx.Chooser) {
			if (n+trans)%64 == 0 {
				runtime.GC()
			}
			k, w, tr := Run(t, sc, ch, func(file []byte, report func(error)) { fn(sc, file, report) })
			if ch.Diverged {
				return // not a faithful replay of its prefix: retried by the explorer
			}
			trans += int64(len(tr))
			hist[strings.Join(tr, " ")] = true
			if k != "" {
				cc := sc
				cc.Trail = append([]int{}, ch.Trail...)
				cls := k
				if sc.FailAt > 0 {
					cls += "|injected-failure"
				} else if sc.Pre {
					cls += "|policy=" + sc.KeyExists
				}
				var kinds []string
				for _, key := range sc.Keys {
					kinds = append(kinds, key.Kind)
				}
				sort.Strings(kinds)
				ev.Violate("C07|"+mode+"|"+cls, fmt.Sprintf("%s (workers=%d target.db=%d dbfilter=%d keyfilter=%d lua=%v keys=%v grants=%v)", w, sc.Workers, sc.TargetDB, sc.DBFilter, sc.KeyFilter, sc.Lua, sc.Keys, tr), cc)
			}
		})
		n += int64(cnt)
		if !complete {
			ev.Cap("time budget")
		}
		if diverged > 0 {
			ev.Cap("grant-order prefixes that the Go scheduler did not reproduce in 5 attempts were skipped")
			ev.Count("unreproducible_prefixes", int64(diverged))
		}
		ev.Count("distinct_grant_orders", int64(len(hist)))
		for h := range hist {
			ev.State(ev.HashS(fmt.Sprint(si, h)))
		}
		if sc.Workers > 1 {
			for h := range hist {
				ev.Nontrivial(ev.HashS(fmt.Sprint(si, h)))
			}
		}
		ev.Outcome(fmt.Sprintf("workers=%d", sc.Workers))
		if si%29 == 0 {
			ev.Sample("scenario", map[string]interface{}{"case": sc, "schedules": cnt, "distinct_grant_orders": len(hist)})
		}
	}
	ev.Eval(n)
	ev.Trace(n)
	ev.Trans(trans)
}

// RaceMain runs the scenarios free-running (no bubble, no held requests, real scheduler) so
// that a -race build can observe unsynchronised accesses between the workers. It judges
// nothing but termination.
func RaceMain(t *testing.T, mode string, fn func(c Case, file []byte, report func(error))) {
	defer ev.Flush("C07")
	log.SetLevel(log.LEVEL_NONE)
	var n int64
	scs := Scenarios()
	for rep := 0; rep < 12; rep++ {
		for si, sc := range scs {
			if sc.FailAt > 0 || sc.Pre || !ev.Mine(int64(rep*len(scs)+si)) {
				continue
			}
			sc.Workers = 4
			if !RaceRun(sc, fn) {
				ev.Violate("C07|"+mode+"|free-running-blocked", "free-running execution did not terminate within 30 s", sc)
				ev.Eval(n)
				return
			}
			n++
		}
	}
	ev.Eval(n)
}
