// Package kit07 is the shared scenario/oracle code of C07 (parallel full sync and restore):
// RDB scenarios, the held-request model target, and the judgement at return. The function
// under test is passed in by the harness of the package it lives in.
package kit07

import (
	"fmt"
	"net"
	"os"
	"strconv"
	"strings"
	"sync"
	"testing"
	"testing/synctest"
	"time"

	conf "github.com/alibaba/RedisShake/redis-shake/configure"
	"github.com/alibaba/RedisShake/verifrt/hook"
	"github.com/alibaba/RedisShake/verifrt/memconn"
	"github.com/alibaba/RedisShake/verifrt/mredis"
	"github.com/alibaba/RedisShake/verifrt/rdbgen"
	"github.com/alibaba/RedisShake/verifrt/seqx"
)

type Key struct {
	DB   uint32 `json:"db"`
	Name string `json:"name"`
	Kind string `json:"kind"` // string list hash lua
}

type Case struct {
	Keys      []Key  `json:"keys"`
	Workers   int    `json:"workers"`
	TargetDB  int    `json:"target_db"`
	DBFilter  int    `json:"db_filter"`  // 0 none, 2 blacklist [1]
	KeyFilter int    `json:"key_filter"` // 0 none, 1 whitelist [p]
	Lua       bool   `json:"filter_lua"`
	KeyExists string `json:"key_exists"`
	Pre       bool   `json:"preexisting_first_key"`
	FailAt    int    `json:"fail_restore_number"`  // 0: none, j: the j-th RESTORE gets an error reply
	FailMsg   string `json:"fail_reply,omitempty"` // the error reply (without '-'); default "ERR injected failure"
	// Retry: after the injected failure was reported, the run is started again against an emptied
	// target, the way DbSyncer.Sync restarts a failed full sync (`go ds.Sync()` on the same object)
	Retry bool  `json:"retry_after_failure,omitempty"`
	Trail []int `json:"trail"`
}

var registry = mredis.NewRegistry()

// Attempt is 1 while the first run of an execution is started and 2 for the retry; Shared lets
// the harness keep the object under test between the two (reset for every execution).
var (
	Attempt int
	Shared  interface{}
)

func value(k Key) *rdbgen.Value {
	var v *rdbgen.Value
	raw := func(s string) rdbgen.Str { return rdbgen.RawStr([]byte(s), rdbgen.LCanon) }
	switch k.Kind {
	case "list":
		v = rdbgen.ListVal([]rdbgen.Str{raw("a-" + k.Name), raw("b")}, rdbgen.LCanon)
	case "hash":
		v = rdbgen.HashVal([]rdbgen.Str{raw("f"), raw("v-" + k.Name)}, rdbgen.LCanon)
	default:
		v = rdbgen.StringVal(raw("value-of-" + k.Name))
	}
	registry.Add(v.Type, v.Raw, v.Log)
	return v
}

func File(c Case) []byte {
	var items []rdbgen.Item
	cur := uint32(0)
	first := true
	for _, k := range c.Keys {
		if first || k.DB != cur {
			items = append(items, rdbgen.SelectDB(k.DB, rdbgen.LCanon))
			cur, first = k.DB, false
		}
		if k.Kind == "lua" {
			items = append(items, rdbgen.Aux(rdbgen.RawStr([]byte("lua"), rdbgen.LCanon), rdbgen.RawStr([]byte("return '"+k.Name+"'"), rdbgen.LCanon)))
			continue
		}
		name := rdbgen.RawStr([]byte(k.Name), rdbgen.LCanon)
		if n, err := strconv.ParseInt(k.Name, 10, 64); err == nil && strconv.FormatInt(n, 10) == k.Name {
			// Redis stores an integer-looking key name integer-encoded
			switch {
			case n >= -128 && n <= 127:
				name = rdbgen.IntStr(n, 8)
			case n >= -32768 && n <= 32767:
				name = rdbgen.IntStr(n, 16)
			case n >= -2147483648 && n <= 2147483647:
				name = rdbgen.IntStr(n, 32)
			}
		}
		items = append(items, rdbgen.Key(name, value(k), rdbgen.KeyOpts{}))
	}
	file, _ := rdbgen.File(9, items)
	return file
}

func (c Case) Apply() {
	conf.Options.FilterDBWhitelist, conf.Options.FilterDBBlacklist = nil, nil
	if c.DBFilter == 2 {
		conf.Options.FilterDBBlacklist = []string{"1"}
	}
	conf.Options.FilterKeyWhitelist, conf.Options.FilterKeyBlacklist = nil, nil
	if c.KeyFilter == 1 {
		conf.Options.FilterKeyWhitelist = []string{"p"}
	}
	conf.Options.FilterLua = c.Lua
	conf.Options.TargetDB = c.TargetDB
	conf.Options.Metric = true
	conf.Options.Parallel = c.Workers
	conf.Options.KeyExists = c.KeyExists
	conf.Options.TargetReplace = true
	conf.Options.BigKeyThreshold = 1 << 30
	conf.Options.TargetVersion = ""
	conf.Options.FilterSlot = nil
	conf.Options.TargetType = "standalone"
}

// Run executes one grant schedule. Returns violation kind/what and a trace of grants.
// start runs the function under test on its own goroutine: it must call report(err) when the
// function returns (err nil for functions without a result).
func Run(t *testing.T, c Case, ch *seqx.Chooser, start func(file []byte, report func(err error))) (kind, what string, trace []string) {
	Attempt, Shared = 1, nil
	c.Apply()
	file := File(c)
	var mu sync.Mutex
	aborted := false
	hook.SetExitHook(func(int) {
		mu.Lock()
		aborted = true
		mu.Unlock()
	})
	defer hook.SetExitHook(nil)
	defer hook.SetDialHook(nil)
	bad := func(k, w string) {
		if kind == "" {
			kind, what = k, w
		}
	}
	func() {
		defer func() {
			if x := recover(); x != nil && !strings.Contains(fmt.Sprint(x), "blocked goroutines remain") {
				// goroutines the tool leaves behind after a failed run (the RDB loader blocked on
				// its channel) are frozen with the bubble and harmless; anything else is a harness problem
				bad("harness-bubble", fmt.Sprint(x))
			}
		}()
		synctest.Test(t, func(t *testing.T) {
			restores := 0
			opt := mredis.Options{Registry: registry, Hold: true}
			opt.ReplyHook = func(cmd mredis.Cmd) []byte {
				if cmd.Name() == "restore" {
					restores++
					if restores == c.FailAt {
						msg := c.FailMsg
						if msg == "" {
							msg = "ERR injected failure"
						}
						return []byte("-" + msg + "\r\n")
					}
				}
				return nil
			}
			srv := mredis.New(opt)
			if c.Pre {
				db := int(c.Keys[0].DB)
				if c.TargetDB != -1 {
					db = c.TargetDB
				}
				srv.Put(db, c.Keys[0].Name, &mredis.Entry{Kind: "string", Str: []byte("OLD")})
			}
			hook.SetDialHook(func(network, addr string) (net.Conn, error, bool) {
				cc, sc := memconn.Pair("target")
				go srv.Serve(sc)
				return cc, nil, true
			})
			var ret error
			returned := false
			go start(file, func(err error) {
				mu.Lock()
				ret, returned = err, true
				mu.Unlock()
			})
			for step := 0; step < 400; step++ {
				synctest.Wait()
				pend := srv.Pending()
				if len(pend) == 0 {
					mu.Lock()
					done := returned || aborted
					mu.Unlock()
					if done {
						break
					}
					// nothing pending and not finished: only the one-second progress timer can move things
					time.Sleep(time.Second)
					continue
				}
				var lab []string
				for _, p := range pend {
					a := ""
					if len(p.Argv) > 1 {
						a = string(p.Argv[1])
					}
					lab = append(lab, fmt.Sprintf("c%d:%s:%s", p.Conn, p.Name(), a))
				}
				i := ch.ChooseL(len(pend), strings.Join(lab, ","))
				if ch.Diverged {
					break
				}
				trace = append(trace, fmt.Sprintf("c%d:%s", pend[i].Conn, pend[i].Name()))
				srv.Grant(i)
			}
			synctest.Wait()
			mu.Lock()
			ab, rt := aborted, returned
			mu.Unlock()
			verify := func(srv *mredis.Server, busy bool) {
				// every passing key exactly once, in its database, with its value
				count := map[string]int{}
				for _, r := range srv.Applied() {
					if r.Name() == "restore" {
						count[fmt.Sprintf("%d/%s", r.DB, r.Argv[1])]++
					}
				}
				for _, k := range c.Keys {
					db := int(k.DB)
					if c.TargetDB != -1 {
						db = c.TargetDB
					}
					id := fmt.Sprintf("%d/%s", db, k.Name)
					if k.Kind == "lua" {
						continue
					}
					ignored := busy && k == c.Keys[0] && c.KeyExists == "ignore"
					switch {
					case !passes(c, k):
						if count[id] != 0 {
							bad("filtered-key-restored", fmt.Sprintf("key %s of db %d is excluded by the filters but was restored", k.Name, k.DB))
						}
					case ignored:
						if e := srv.Lookup(db, k.Name); e == nil || string(e.Str) != "OLD" {
							bad("ignore-policy", fmt.Sprintf("key %s existed and key_exists=ignore, but it was changed", k.Name))
						}
					default:
						e := srv.Lookup(db, k.Name)
						if e == nil {
							bad("key-missing", fmt.Sprintf("key %s is missing in target db %d after the full sync returned", k.Name, db))
						} else if want := mredis.FromLogical(value(k).Log, nil); e.Canon() != want.Canon() {
							bad("key-value", fmt.Sprintf("key %s in db %d holds %s, expected %s", k.Name, db, e.Canon(), want.Canon()))
						}
						if n := count[id]; n != 1 && !(busy && k == c.Keys[0]) {
							bad("restore-count", fmt.Sprintf("key %s was restored %d times into db %d", k.Name, n, db))
						}
					}
					delete(count, id)
				}
				for id, n := range count {
					if n > 0 {
						bad("wrong-database", fmt.Sprintf("a key was restored as %s (db/key), which is not where it belongs", id))
					}
				}
				// scripts
				wantScripts := 0
				for _, k := range c.Keys {
					if k.Kind == "lua" && !c.Lua {
						wantScripts++
					}
				}
				if got := len(srv.Scripts()); got != wantScripts {
					bad("scripts", fmt.Sprintf("%d Lua scripts in the RDB (filter.lua=%v), %d loaded on the target", wantScripts, c.Lua, got))
				}
			}
			// expectations
			expectFail := c.FailAt > 0 && c.FailAt <= numRestores(c)
			busy := c.Pre && passes(c, c.Keys[0]) && c.Keys[0].Kind != "lua"
			if busy && c.KeyExists == "none" {
				expectFail = true
			}
			switch {
			case !rt && !ab:
				bad("no-return", "the run neither returned nor aborted although no request is pending")
			case expectFail:
				if rt && ret == nil && !ab {
					bad("failure-swallowed", "a restore failed (error reply or busy key under key_exists=none) but the run finished as a success")
				}
			case ab:
				bad("abort", "the tool aborts although every restore succeeds")
			case ret != nil:
				bad("error", "the run reports an error although every restore succeeds: "+ret.Error())
			default:
				verify(srv, busy)
			}
			if c.Retry && kind == "" && expectFail && rt && !ab && ret != nil {
				// the failure was reported; the tool now restarts the full sync on the same object
				Attempt = 2
				srv2 := mredis.New(mredis.Options{Registry: registry, Hold: true})
				hook.SetDialHook(func(network, addr string) (net.Conn, error, bool) {
					cc, sc := memconn.Pair("target-retry")
					go srv2.Serve(sc)
					return cc, nil, true
				})
				mu.Lock()
				ret, returned = nil, false
				mu.Unlock()
				go start(file, func(err error) {
					mu.Lock()
					ret, returned = err, true
					mu.Unlock()
				})
				for step := 0; step < 400; step++ {
					synctest.Wait()
					if len(srv2.Pending()) == 0 {
						mu.Lock()
						done := returned || aborted
						mu.Unlock()
						if done {
							break
						}
						time.Sleep(time.Second)
						continue
					}
					srv2.Grant(0)
				}
				synctest.Wait()
				mu.Lock()
				ab2, rt2, ret2 := aborted, returned, ret
				mu.Unlock()
				switch {
				case !rt2 && !ab2:
					bad("retry-no-return", "the restarted full sync neither returned nor aborted")
				case ab2:
					bad("retry-abort", "the restarted full sync aborts although every restore succeeds")
				case ret2 != nil:
					bad("retry-error", "the restarted full sync reports an error although every restore succeeds: "+ret2.Error())
				default:
					verify(srv2, false)
					if kind != "" {
						kind = "retry-" + kind
					}
				}
				for i := 0; i < 50; i++ {
					synctest.Wait()
					if len(srv2.Pending()) == 0 {
						break
					}
					srv2.Grant(0)
				}
			}
			// tear down: release whatever is still held, cut the connections
			for i := 0; i < 50; i++ {
				synctest.Wait()
				if len(srv.Pending()) == 0 {
					break
				}
				srv.Grant(0)
			}
		})
	}()
	return
}

func passes(c Case, k Key) bool {
	if c.DBFilter == 2 && k.DB == 1 {
		return false
	}
	if c.KeyFilter == 1 && !strings.HasPrefix(k.Name, "p") {
		return false
	}
	return true
}

func numRestores(c Case) int {
	n := 0
	for _, k := range c.Keys {
		if k.Kind != "lua" && passes(c, k) {
			n++
		}
	}
	return n
}

func clashAny(keys []Key) bool {
	names := map[string]bool{}
	for _, key := range keys {
		if names[key.Name] {
			return true
		}
		names[key.Name] = true
	}
	return false
}

func Scenarios() []Case {
	k := func(db uint32, name, kind string) Key { return Key{db, name, kind} }
	rdbs := [][]Key{
		{k(0, "pa", "string"), k(0, "pb", "list"), k(1, "pc", "hash")},
		{k(1, "pa", "string"), k(0, "pb", "string"), k(1, "pc", "list")},
		{k(2, "pa", "hash"), k(1, "pb", "string"), k(0, "qc", "string")},
		{k(0, "pa", "string"), k(0, "s1", "lua"), k(1, "pb", "string"), k(1, "s2", "lua")},
		{k(0, "pa", "string"), k(1, "pa", "list"), k(2, "pa", "hash"), k(1, "qb", "string")},
		{k(0, "pa", "string"), k(1, "pb", "list"), k(0, "pc", "hash"), k(2, "pd", "string"), k(1, "pe", "string"), k(0, "s1", "lua")},
		// integer-looking key names (integer-encoded in the RDB)
		{k(0, "12", "string"), k(0, "-7", "list"), k(1, "1234", "hash"), k(1, "70000", "string")},
		// filtered entries (key whitelist p) sitting exactly where a worker has to switch database
		{k(1, "qa", "string"), k(1, "pb", "string"), k(2, "qc", "list"), k(2, "pd", "hash"), k(2, "pe", "string")},
	}
	workers := []int{1, 2, 3}
	if os.Getenv("VERIF_TIER") == "thorough" {
		// longer RDBs and a fourth worker; their grant orders are explored within 3 deviations
		rdbs = append(rdbs,
			[]Key{k(0, "pa", "string"), k(0, "pb", "list"), k(1, "pc", "hash"), k(1, "qd", "string"), k(2, "pe", "string"), k(2, "s1", "lua"), k(0, "pf", "list"), k(0, "pg", "string")},
			[]Key{k(3, "qa", "string"), k(3, "pb", "string"), k(1, "pc", "list"), k(1, "pd", "hash"), k(1, "pe", "string"), k(0, "pf", "string"), k(0, "qg", "hash")})
		workers = []int{1, 2, 3, 4}
	}
	var out []Case
	for _, keys := range rdbs {
		for _, w := range workers {
			for _, tdb := range []int{-1, 3} {
				names := map[string]bool{}
				clash := false
				for _, key := range keys {
					clash = clash || names[key.Name]
					names[key.Name] = true
				}
				if tdb != -1 && clash {
					continue // the same name in two source databases cannot be merged into one target database
				}
				out = append(out, Case{Keys: keys, Workers: w, TargetDB: tdb, KeyExists: "none"})
			}
			out = append(out, Case{Keys: keys, Workers: w, TargetDB: -1, DBFilter: 2, KeyExists: "none"})
			out = append(out, Case{Keys: keys, Workers: w, TargetDB: -1, KeyFilter: 1, KeyExists: "none"})
			if !clashAny(keys) {
				out = append(out, Case{Keys: keys, Workers: w, TargetDB: 3, KeyFilter: 1, KeyExists: "none"})
			}
			out = append(out, Case{Keys: keys, Workers: w, TargetDB: -1, Lua: true, KeyExists: "none"})
			for _, pol := range []string{"none", "rewrite", "ignore"} {
				out = append(out, Case{Keys: keys, Workers: w, TargetDB: -1, KeyExists: pol, Pre: true})
			}
			for j := 1; j <= 3; j++ {
				out = append(out, Case{Keys: keys, Workers: w, TargetDB: -1, KeyExists: "none", FailAt: j})
			}
			// other refusals a busy or degraded target answers with: none of them means "the key exists"
			if w <= 2 {
				for _, msg := range []string{"BUSY Redis is busy running a script. You can only call SCRIPT KILL or SHUTDOWN NOSAVE.",
					"LOADING Redis is loading the dataset in memory", "OOM command not allowed when used memory > 'maxmemory'.", "BUSYGROUP x"} {
					for _, pol := range []string{"none", "rewrite", "ignore"} {
						out = append(out, Case{Keys: keys, Workers: w, TargetDB: -1, KeyExists: pol, FailAt: 2, FailMsg: msg})
					}
				}
			}
			out = append(out, Case{Keys: keys, Workers: w, TargetDB: -1, KeyExists: "none", FailAt: 1, Retry: true})
			out = append(out, Case{Keys: keys, Workers: w, TargetDB: -1, KeyExists: "none", FailAt: 2, Retry: true})
		}
	}
	return out
}

// RaceRun executes one scenario without a bubble; false if it does not end within 30 s.
func RaceRun(c Case, fn func(c Case, file []byte, report func(error))) bool {
	c.Apply()
	file := File(c)
	srv := mredis.New(mredis.Options{Registry: registry})
	hook.SetExitHook(func(int) {})
	defer hook.SetExitHook(nil)
	hook.SetDialHook(func(network, addr string) (net.Conn, error, bool) {
		cc, sc := memconn.Pair("target")
		go srv.Serve(sc)
		return cc, nil, true
	})
	defer hook.SetDialHook(nil)
	done := make(chan struct{})
	go fn(c, file, func(error) { close(done) })
	select {
	case <-done:
		return true
	case <-time.After(30 * time.Second):
		return false
	}
}
