// Package vsync is a drop-in for the parts of package sync that pipe.go and backlog.go use
// (Mutex, Cond, NewCond, Locker). Without an active scheduler every call goes to the real
// sync package; with one (lockx installs it) Lock and Cond.Wait become scheduling points and
// mutex ownership and condition queues are modelled by the scheduler.
package vsync

import "sync"

type Locker = sync.Locker

// Scheduler is what lockx implements.
type Scheduler interface {
	Lock(m *Mutex)
	Unlock(m *Mutex)
	Wait(c *Cond)
	Signal(c *Cond)
	Broadcast(c *Cond)
}

// Active is the installed scheduler (nil: pass through). It is only changed while no thread of
// the code under test is running.
var Active Scheduler

type Mutex struct {
	real  sync.Mutex
	Owner int // scheduler's view: 0 free, else thread id + 1
	ID    int // assigned by the scheduler on first use (canonical naming for state keys)
}

func (m *Mutex) Lock() {
	if s := Active; s != nil {
		s.Lock(m)
		return
	}
	m.real.Lock()
}

func (m *Mutex) Unlock() {
	if s := Active; s != nil {
		s.Unlock(m)
		return
	}
	m.real.Unlock()
}

type Cond struct {
	L       Locker
	real    *sync.Cond
	once    sync.Once
	Waiters []int // scheduler's view: waiting thread ids, FIFO
	ID      int
}

func NewCond(l Locker) *Cond { return &Cond{L: l} }

func (c *Cond) r() *sync.Cond {
	c.once.Do(func() {
		if m, ok := c.L.(*Mutex); ok {
			c.real = sync.NewCond(&m.real)
		} else {
			c.real = sync.NewCond(c.L)
		}
	})
	return c.real
}

func (c *Cond) Wait() {
	if s := Active; s != nil {
		s.Wait(c)
		return
	}
	c.r().Wait()
}

func (c *Cond) Signal() {
	if s := Active; s != nil {
		s.Signal(c)
		return
	}
	c.r().Signal()
}

func (c *Cond) Broadcast() {
	if s := Active; s != nil {
		s.Broadcast(c)
		return
	}
	c.r().Broadcast()
}
