// Package crcref holds bit-at-a-time reference CRCs written from their parameter sets:
// CRC-64/Jones as used by Redis (poly 0xad93d23594c935a9, reflected in/out, init 0, xorout 0)
// and CRC-16/XMODEM (poly 0x1021, init 0, not reflected).
package crcref

const jonesReflected = 0x95ac9329ac4bc9b5 // bit-reversal of 0xad93d23594c935a9

func CRC64(crc uint64, b []byte) uint64 {
	for _, c := range b {
		crc ^= uint64(c)
		for i := 0; i < 8; i++ {
			if crc&1 != 0 {
				crc = crc>>1 ^ jonesReflected
			} else {
				crc >>= 1
			}
		}
	}
	return crc
}

func CRC16(b []byte) uint16 {
	var crc uint16
	for _, c := range b {
		crc ^= uint16(c) << 8
		for i := 0; i < 8; i++ {
			if crc&0x8000 != 0 {
				crc = crc<<1 ^ 0x1021
			} else {
				crc <<= 1
			}
		}
	}
	return crc
}

// Slot is the Redis Cluster key hash slot: CRC16 of the substring between the first '{' and the
// first following '}' when that substring is non-empty, else of the whole key, modulo 16384.
func Slot(key []byte) int {
	s := -1
	for i, c := range key {
		if c == '{' {
			s = i
			break
		}
	}
	if s >= 0 {
		for e := s + 1; e < len(key); e++ {
			if key[e] == '}' {
				if e > s+1 {
					return int(CRC16(key[s+1:e])) % 16384
				}
				break
			}
		}
	}
	return int(CRC16(key)) % 16384
}

// SelfCheck verifies the published check values.
func SelfCheck() bool {
	return CRC64(0, []byte("123456789")) == 0xe9c6d914c4b8d9ca && CRC16([]byte("123456789")) == 0x31c3 &&
		Slot([]byte("foo{bar}{zap}")) == int(CRC16([]byte("bar")))%16384 && Slot([]byte("foo{}{bar}")) == int(CRC16([]byte("foo{}{bar}")))%16384 &&
		Slot([]byte("foo{{bar}}zap")) == int(CRC16([]byte("{bar")))%16384
}
