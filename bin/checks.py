# Check table used by bin/check. One entry per property; "parts" are (package, harness dirs, test).
ASSUMPTIONS = [
    "A1 the go1.26.8 compiler/runtime (and testing/synctest where used) are correct",
    "A4 the reference components under /verif/engine (written independently of the code under test) are right",
    "the code under test is compiled from /repo's working tree through a build overlay (see MANIFEST.hooks); only the listed call expressions are rewritten",
]

ENGINES = [
    dict(name="seqx", path="/verif/engine/seqx", serves_properties=["C01", "C02", "C10", "C11", "C12", "C13", "C14", "C15", "C20"],
         kind_free_text="exhaustive word / product / choice-tree enumeration over the real (sequential) code with reference-model oracles; deviation-bounded DFS (seqx.Explore)"),
    dict(name="lockx", path="/verif/engine/lockx", serves_properties=["C09", "C18"],
         kind_free_text="CHESS-style cooperative scheduler over a shim of package sync (engine/vsync): Lock/Cond.Wait are scheduling points, iterative preemption bounding, deadlock and lost-wake-up detection"),
    dict(name="reference models", path="/verif/engine", serves_properties=[],
         kind_free_text="rdbgen/rdbcat (independent RDB writer + catalogue), crcref (bitwise CRCs, slot spec), respref (RESP recogniser), mredis (model Redis over RESP), memconn (in-memory net.Conn)"),
]

NOT_APPLICABLE = {}

CHECKS = {
    "C10": dict(
        level="model_checking",
        engine="seqx",
        technique="bounded exhaustive enumeration of all input byte strings / value trees executed on the real decoder, compared with an independent reference recogniser",
        text="Every byte string up to the bound over an alphabet containing every RESP structural byte is run through the real decoder and "
             "an independent three-valued recogniser: equal value, exact bytes consumed, position == bytes consumed, malformed => error. "
             "Plus exhaustive round trips of value trees, streams through several bufferings, all single-byte corruptions/truncations. "
             "A bounded-exhaustive result: it speaks for all inputs inside the stated bounds, not beyond. Payload sizes: one binary bulk of 2^k-1, 2^k and 2^k+1 bytes for k=6..21 (thorough ..24), alone and as a command argument, through encoder, DecodeFromBytes and the streaming decoder. Integer texts at the int64 limits (with -, + and leading zeros, up to 30 digits) are tried as integer value, bulk length and array length; a decoder panic counts as a violation.",
        note="trusts respref (engine/respref, ~250 lines, written from the protocol text); numbers longer than 3 digits are skipped in the byte enumeration to keep allocations small (counted)",
        rule="(a) every byte string up to bytes_max_len over the 12-symbol RESP alphabet (nodes of the word trie = states, "
             "one appended byte = transition), decoded by pkg/redis and by the independent recogniser respref; non-trivial = "
             "respref classifies the input valid, malformed or truncated (the oracle demands a value or an error; "
             "'unspecified' inputs only get the byte-accounting check); (b) value trees depth<=2 width<=2, Encode->Decode, "
             "2/3-value streams with keep-alive newlines through five bufferings, every single-byte substitution and "
             "truncation of each encoding; (c) command helpers; (d) itos over the whole pre-rendered table. "
             "Second part (TestVerif_C10X): the one consumer that decodes a file's command section (restore with extra=true) gets every prefix of a small section, cut at every byte of its last command (RESP array, array with an empty bulk, inline form): "
             "the complete commands before the cut are forwarded in order and a section that ends inside a command is never taken for a normal end of input.",
        parts=[dict(pkg="./pkg/redis", harness=["redis"], test="^TestVerif_C10$", shards=16,
                    budget=dict(quick=60, thorough=900), race=True, race_test="^TestVerif_C10Race$", race_shards=1),
               # the consumer of a file's command section (restore with extra=true): every prefix of a small section, cut at every byte of its last command
               dict(pkg="./redis-shake", harness=["run"], test="^TestVerif_C10X$", shards=16, gomaxprocs=2, budget=dict(quick=60, thorough=120))],
    ),
    "C15": dict(
        level="exploration",
        engine="seqx",
        technique="bounded exhaustive enumeration of keys (all brace arrangements) and of slot ranges, executed on the real functions, compared with a bit-at-a-time reference CRC16 and the cluster specification",
        text="KeyToSlot is compared with the specification on every string over {,},a,b up to the bound (every arrangement of braces: empty tags, "
             "unbalanced, nested, repeated) and on all 1-2 byte keys; both CRC16 copies against a bitwise reference on all 1-2 byte inputs; the "
             "checkpoint-key search is run on all singleton ranges and a grid (quick) or on all 134M ranges (thorough); every chosen key must hash "
             "inside its range and be excluded by the key filter under every filter configuration. Range queries are also asked as histories in one process (all ranges over 23 boundaries whose decimal digits run into each other, twice, in a different order per shard). Further part (TestVerif_C15T): every cluster layout over a small set of cut points and three masters (masters owning one to three ranges, other masters' slots in the gaps, reply in either order) is answered as CLUSTER SLOTS to the real GetSlotDistribution; every derived shard range must contain only slots of its master, every slot must be in a shard, and the checkpoint key the real ChoseSlotInRange picks for the shard must hash (reference CRC16) into a slot of that master.",
        note="trusts crcref (bitwise CRC16/XMODEM, checked against the published check value 0x31c3) and the specification transcription in crcref.Slot",
        rule="cases = keys / byte strings / slot ranges, each distinct by construction of the enumeration; non-trivial = every case (each compares the real function's result with the reference)",
        parts=[
            dict(pkg="./redis-shake/common", harness=["common"], test="^TestVerif_C15$", shards=16, budget=dict(quick=60, thorough=1200)),
            # cluster layouts: CLUSTER SLOTS replies in which masters own one to three ranges -> the real GetSlotDistribution -> the real checkpoint key per shard
            dict(pkg="./redis-shake/common", harness=["common"], test="^TestVerif_C15T$", shards=16, budget=dict(quick=60, thorough=600)),
            dict(pkg="./redis-shake/dbSync/latencymonitor", harness=["latencymonitor"], test="^TestVerif_C15L$", shards=16, budget=dict(quick=60, thorough=600)),
            dict(pkg="./redis-shake/filter", harness=["filter"], test="^TestVerif_C15F$", shards=1, budget=dict(quick=60, thorough=600)),
        ],
    ),
    "C13": dict(
        level="model_checking",
        engine="seqx",
        technique="exhaustive product (command x arity x pass/fail mask x filter configuration) executed on the real rewrite function, compared with a reference built from Redis' key-position table",
        text="For every command of the tool's write-command table, every arity from the minimum to minimum+3 key groups, every subset of keys passing, "
             "and filter none/whitelist/blacklist, HandleFilterKeyWithCommand's output is compared with a reference rewrite derived from the Redis command "
             "reference (first/last/step). Non-key arguments are named so that they would be filtered if mistaken for keys. Every argument position is also tried as the empty string (as a key it passes a blacklist and fails a whitelist). Every command is also sent in UPPER, lOWER-first and aLtErNaTiNg spelling through the real ParseArgs. "
             "Second part (incremental path): every well-formed command stream up to length 3 (thorough: 4) over ten symbols (passing, failing and mixed-key commands, FLUSHALL in two spellings, MULTI, EXEC) "
             "x key filter none/whitelist/blacklist runs through the real parser, sender and receiver against the in-memory target; the commands the target applies must be, in order, what the rewrite function returns for each command on its own (a decision never depends on the neighbouring commands; a command that is not key-addressed is never dropped). Commands of variable arity are also sent with 63, 64, 65, 66, 129 and 257 key groups under six pass patterns (all, none, only the last, only the first, every third fails, only keys from the 65th on). The incremental-path alphabet also holds SELECT 1 and PING, and every applied command is attributed to its database.",
        note="trusts the transcription of Redis' key positions in harness/filter/c13_test.go; commands added to the tool's table that the reference does not know are reported as notes, not judged",
        rule="case = (command, argument shape, pass mask, filter config); all distinct; states = distinct cases, transitions = calls; non-trivial = all (each is compared with the reference rewrite)",
        parts=[dict(pkg="./redis-shake/filter", harness=["filter"], test="^TestVerif_C13$", race=True, race_test="^TestVerif_C13Race$", race_shards=1, shards=1, budget=dict(quick=60, thorough=60)),
               # incremental path: every well-formed stream over a 10-symbol alphabet x key filter; the target must see what the rewrite function decides for each command alone
               dict(pkg="./redis-shake/dbSync", harness=["dbsync"], test="^TestVerif_C13I$", shards=16, gomaxprocs=2, budget=dict(quick=60, thorough=600))],
    ),
    "C01": dict(
        level="model_checking",
        engine="seqx",
        technique="bounded exhaustive enumeration of RDB item sequences (all words up to a length over an alphabet of every opcode/encoding) parsed by the real loader, compared record by record with an independent RDB writer's expectation",
        text="Files are generated by an independent RDB writer (engine/rdbgen) from an alphabet holding every opcode, every length form, every string "
             "storage form, every value type and compact encoding (all eleven ziplist entry encodings, intset widths, zipmap, quicklist, streams with "
             "groups/PEL/consumers, module-aux sub-opcodes), all expiry/idle/freq prefixes. All words up to the stated lengths are parsed by the real "
             "Loader through a whole-buffer and a one-byte-per-read source and compared record by record (db, key, type, expiry ms, idle, freq, payload == "
             "type|file bytes|version|CRC64 computed by a bitwise reference), then EOF and footer. Pairs/triples expose state carried between records. "
             "Hashes beyond 16 MiB are checked for the chunk records' concatenation. In the chunked-hash cases the consumer renames every delivered record before it asks for the next piece (as the restore routine does for hash-tag replacement): later pieces must still carry the file's key and database. The big records are loaded through a reader that never returns more than 1 MiB - 3 (with expiry: 64 KiB + 1) bytes per read.",
        note="trusts rdbgen/rdbcat (written from rdb.h/rdb.c, self-checking LZF) and crcref; header versions 1-4 are driven without a checksum trailer; bounds on word length and on the alphabet are stated in the evidence",
        rule="case = (word of alphabet items, header version, reader mode); states = distinct word prefixes (trie nodes) plus distinct dumped loader states (db, remainMember, lastReadCount, totMemberCount); transitions = parser runs; non-trivial = word contains at least one key or Lua record",
        parts=[dict(pkg="./pkg/rdb", harness=["rdb"], test="^TestVerif_C01$", shards=16, budget=dict(quick=90, thorough=1500), mem_kb=8*1024*1024,
                    race=True, race_test="^TestVerif_C01Race$", race_shards=12)],
    ),
    "C11": dict(
        level="fault_enumeration",
        engine="seqx",
        technique="exhaustive enumeration of inputs/chunkings for the digests and of every single-byte substitution and truncation of every generated RDB file and DUMP payload, executed on the real checkers",
        text="(a) both CRC-64 implementations are compared with a bitwise reference on every 1- and 2-byte input (which pins every table entry and the update "
             "rule), all strings <=6 over {00,01,80,ff}, and every chunking into <=3 writes; Sum/Sum64/Reset. (b) for every single-record RDB of the "
             "catalogue, every byte position x all 255 other values must make header, parsing or the end-of-file check fail; the intact file must pass. "
             "(c) every DUMP payload: intact accepted by DecodeDump and CheckVersionChecksum, every substitution, every truncation below 10 bytes and "
             "correctly re-sealed payloads with versions above the supported one rejected. Every intact RDB is also parsed with a short read at every byte position (bare and below a 16-byte bufio.Reader) and 1, 3 and 7 bytes at a time. The concurrent-loader -race pass makes the very first use of loader, digest and decoder in its process concurrent (eight loaders behind a barrier, the solo reference is produced afterwards) and runs in twelve fresh processes.",
        note="trusts crcref (bitwise CRC-64/Jones, checked against e9c6d914c4b8d9ca) and rdbgen; artefacts longer than 700 bytes are substituted in their first and last 320 bytes only (stated in bounds)",
        rule="case = (artefact, position, substituted byte) or (input, chunking); non-trivial = distinct artefacts / inputs for which the real checker's verdict is compared with the expected one",
        parts=[
            dict(pkg="./pkg/rdb/digest", harness=["digest"], test="^TestVerif_C11A$", shards=1, budget=dict(quick=60, thorough=120)),
            dict(pkg="./pkg/libs/cupcake/rdb/crc64", harness=["crc64"], test="^TestVerif_C11A$", shards=1, budget=dict(quick=60, thorough=120)),
            dict(pkg="./pkg/rdb", harness=["rdb"], test="^TestVerif_C11B$", shards=32, shards_thorough=256, budget=dict(quick=60, thorough=900), mem_kb=0, mem_soft_kb=0,
                 race=True, race_test="^TestVerif_C11Race$", race_shards=12),
            dict(pkg="./redis-shake/common", harness=["common"], test="^TestVerif_C11U$", shards=16, budget=dict(quick=90, thorough=600)),
        ],
    ),
    "C12": dict(
        level="exploration",
        engine="seqx",
        technique="bounded exhaustive enumeration of logical values, score bit patterns, compact encodings and (db,key,expiry,object) sequences, executed through the real encoder, parser and decoder and compared with the value they were built from",
        text="EncodeDump->DecodeDump for every string of a boundary pool (integer-encoding limits, signs, leading zeros, spaces, 63/64/16383/16384 bytes) and "
             "every list/set/hash/zset of size 0..3 over it, every (sign, exponent, 5 mantissas) float64 pattern as score; every compact encoding of the "
             "catalogue (ziplist with all entry encodings, intset widths, zipmap incl. long items, quicklist, LZF, int strings) goes through the real "
             "parser and DecodeDump and must equal the logical value the independent writer built it from; all (db,key,expiry,object) sequences up to "
             "length 2 (3 over a reduced alphabet) are written with the file encoder and loaded back, footer verified; BinEntry<->ObjEntry. Files with a 1.5 MiB string and with a list element of 1.2 MiB are loaded through a reader that answers in pieces of at most 70001 bytes.",
        note="trusts rdbgen's notion of the logical value of each compact encoding (written from ziplist.c/intset.c/zipmap.c); sets are compared as multisets, everything else in order",
        rule="case = one value / payload / record sequence, distinct by construction; non-trivial = every case (each compares a decoded value with the expected one)",
        parts=[dict(pkg="./pkg/rdb", harness=["rdb"], test="^TestVerif_C12$", shards=16, budget=dict(quick=60, thorough=900),
                    race=True, race_test="^TestVerif_C12Race$", race_shards=1)],
    ),
    "C02": dict(
        level="model_checking",
        engine="seqx",
        technique="exhaustive cartesian product (entry x configuration x target state) executed on the real restore routine against a model Redis behind the real redigo client; final target state compared with the source's logical value",
        text="Entries come from the real parser (files written by rdbgen: every type/encoding, sizes around the 100-command batch, a hash delivered in three "
             "chunks). For the full product of expiry, idle/freq, big-key threshold, key_exists policy, REPLACE support, payload rejection and pre-existing "
             "key (plus version strings, time shift and hash-tag replacement on one representative per type) RestoreRdbEntry runs against a model Redis (real "
             "redigo client over an in-memory connection). Oracle: logical equality of the target key, TTL bracketed by the clock before/after the call, "
             "policy semantics (none: error and target untouched; ignore: untouched; rewrite: source value), no abort (log.Panic or Go panic) for any "
             "accepted configuration. Coverage is reported per route actually taken (restore, bigkey, quicklist, fallback). Expiries: none, +1 h, already past, +400 years (beyond an int64 of nanoseconds), and given in seconds. Sweep F repeats every value through all three routes on a connection that keeps the arguments of Send until Flush (a model of the tool's cluster connection, whose Batch.Put retains the argument slices): a restore routine must not reuse an argument buffer before the flush. Sweep G: the target refuses the n-th element command (n = 1..4) of the element-wise route with -OOM, on both kinds of connection; the restore must abort or return an error, never report success.",
        note="trusts mredis' model of RESTORE/BUSYKEY/REPLACE/TTL semantics (A5), rdbgen's logical values and redigo; values with NaN scores and the stream x target-rejects combination are excluded (cannot succeed on any Redis)",
        rule="case = one point of the product; states = distinct cases; transitions = restore calls; non-trivial = every case (each one compares the final target state with the expected one)",
        parts=[dict(pkg="./redis-shake/common", harness=["common"], test="^TestVerif_C02$", shards=16, budget=dict(quick=75, thorough=1500), mem_kb=8*1024*1024)],
    ),
    "C14": dict(
        level="model_checking",
        engine="seqx",
        technique="breadth-first explicit-state search over target states reachable by sequences of checkpoint writes (deduplicated on the canonical keyspace); the real LoadCheckpoint runs on every distinct state against a model Redis and is compared with a reference function",
        text="States are built by all words up to the stated depth over an alphabet of checkpoint writes (our source, a source whose address extends ours, an "
             "unrelated source; three databases; two offsets; every subset of run-id/offset/version fields; versions 0/1/absent), data keys, cleared "
             "databases and a foreign value under the checkpoint name. The real LoadCheckpoint (real redigo client, dial hook) runs on every distinct state. "
             "Oracle: a set-valued reference (any database holding the maximal offset of OUR source is acceptable, because the scan order is a Go map order), "
             "its run id and database or unknown/no database, -1 when none, refusal when that checkpoint's version is too old; afterwards foreign fields and the "
             "chosen database untouched and our stale fields removed elsewhere. Third part (TestVerif_C14R): whole DbSyncer.Sync() runs against three model source nodes and a model target. A fresh run stores its checkpoint; a restarted process has its first 0, 1 or 2 PSYNCs refused (-NOMASTERLINK), which starts Sync() again on the same object; standalone sources and cluster sources with three slot ranges. Every PSYNC must ask for the continuation of the stored checkpoint (run id, offset+1), no further checkpoint key may appear on the target, the stored offset ends at the end of the stream and the counter incremented before and after the restart is 2. Every state reachable with at most two writes is also evaluated with one lookup command (EXISTS or HGETALL) refused with -LOADING in one database: the load must then report an error, never go on with what it saw elsewhere. The restart part also runs shards that own a single slot and checks that the key the checkpoint is stored under hashes into the shard's slot range.",
        note="trusts mredis (HGETALL/HDEL/EXISTS/INFO keyspace) and redigo; the reference function is a direct transcription of the statement",
        rule="state = canonical target keyspace (per database: checkpoint fields, data flag); transition = one write applied to the model state; every distinct state is evaluated once on the real code; non-trivial = the state holds at least one checkpoint field or foreign value (outcome other than 'none')",
        parts=[dict(pkg="./redis-shake/checkpoint", harness=["checkpoint"], test="^TestVerif_C14$", shards=16, budget=dict(quick=60, thorough=900)),
               dict(pkg="./redis-shake/dbSync", harness=["dbsync"], test="^TestVerif_C14S$", shards=16, gomaxprocs=2, budget=dict(quick=60, thorough=600)),
               # restarts: a fresh whole Sync() run stores its checkpoint, then a restarted process whose first 0-2 PSYNCs are refused (Sync() starts again on the same object), standalone and cluster sources
               dict(pkg="./redis-shake/dbSync", harness=["dbsync"], test="^TestVerif_C14R$", shards=16, gomaxprocs=2, budget=dict(quick=90, thorough=300))],
    ),
    "C20": dict(
        level="model_checking",
        engine="seqx+synctest",
        technique="exhaustive depth-first enumeration of per-probe environment answers (full product for 1-2 retries, deviation-bounded for the production retry count) driving the real discovery routine inside a fake-clock bubble",
        text="The real recursiveGetSlotState runs with its connection factory replaced by one whose answer to every probe (connect error, command error, "
             "INFO without role line, slave, slave with a misleading earlier line, master, master with the role line late) is the explorer's choice; the "
             "back-off sleeps run on testing/synctest's fake clock. Full product over all rounds for maxRetries 1 and 2, all-fail default with <=2/3 deviating "
             "answers for the production value 6. Oracle: success iff the final round contains a node answering master, that node is the chosen source, "
             "source+replicas is exactly the known node list, failure only after maxRetries+1 rounds and exactly the expected back-off, receiver state unchanged. Third part (TestVerif_C20R): the same whole-Sync() harness with the master role moving between the attempts of one syncer object: every sequence of masters over 1, 2 and 3 attempts (39 scenarios). Every PSYNC must go to the node that is master at that moment, discovery must end (no abort), and the syncer's node must name the master as source and the two other nodes as replicas. The real-factory part also runs with nodes that refuse connections (every subset pattern of one, two or three nodes down) with source.tls_enable off and on: with TLS the model nodes speak TLS with certificates of a harness CA the process trusts (SSL_CERT_FILE), through the tls.Dial seam. A reachable master must be found; when the only master is down the answer is an error after the retries, never a crash. The per-node answers include a node that answers NOAUTH (its password differs from the configured one). The restart part also has attempts at which no node reports the master role (bounded retries, then an error; never a PSYNC to a replica), with the full node list and with a shard known through a single node. Real-factory part: nodes that close the connection as soon as the first command arrives (every subset pattern, with and without a password), under a watchdog that turns a spinning probe into a hang violation.",
        note="trusts testing/synctest's fake clock (A1); the fake connection implements redigo.Conn directly (no network layer involved in this property)",
        rule="case = one complete sequence of probe answers; states = distinct answer sequences; transitions = probes; non-trivial = every completed execution (each is judged against the expected outcome)",
        parts=[dict(pkg="./redis-shake/dbSync/slotsupervisor", harness=["slotsupervisor"], test="^TestVerif_C20$", shards=16, budget=dict(quick=60, thorough=900)),
               # the same discovery through the real connection factory (dial, AUTH, INFO over a connection)
               dict(pkg="./redis-shake/dbSync/slotsupervisor", harness=["slotsupervisor"], test="^TestVerif_C20F$", shards=1, budget=dict(quick=60, thorough=120)),
               # the master role moves between the attempts of one syncer object (every sequence of masters over 1-3 attempts of whole Sync() runs against three model nodes)
               dict(pkg="./redis-shake/dbSync", harness=["dbsync"], test="^TestVerif_C20R$", shards=16, gomaxprocs=2, budget=dict(quick=90, thorough=300))],
    ),
    "C09": dict(
        level="model_checking",
        engine="lockx+seqx",
        technique="stateless model checking of the real pipe under a cooperative scheduler (every Lock/Cond.Wait is a scheduling point; iterative preemption bounding, all schedules up to the bound) plus exhaustive sequential operation words against a byte-queue reference",
        text="pipe.go is compiled against a shim of sync (vsync) whose Lock and Cond.Wait are scheduling points owned by the explorer (lockx): for 16 "
             "writer/reader(/closer) scenarios with chunk sizes around the capacity every schedule with at most 2 (thorough 3) preemptions is executed on the "
             "real code. Oracle per schedule: the reader's bytes are a prefix of the accepted writes (position-coded), a Wait is entered only when full/empty "
             "and no close is pending (checked on the private state at the moment of blocking), no deadlock or lost wake-up (a state with unfinished threads "
             "and nobody enabled), EOF only after draining, operations that start after a close completed fail at once with the right error. Sequentially, "
             "all words up to length 5 (7) over writes/reads of sizes {0,1,cap-1,cap,cap+1}, Buffered/Available and the four close variants are compared step "
             "by step with a byte queue. A separate free-running -race build of the same scenario bodies looks for unsynchronised accesses. File-backed pipes also run directed words over three laps of the ring (lagging reader, writes across the ring end; 4 MiB and 12 MiB rings) in the quick tier. Besides plain closes and a custom error the closes carry the two error values the pipe itself gives a meaning to: io.ErrClosedPipe on the writer side and io.EOF on the reader side. Three fault scenarios close the file handle under a file-backed pipe (op X): every later call must come back (an I/O error is accepted), nobody may park while space or data are there.",
        note="the scheduler is sequentially consistent and switches only at Lock/Wait/thread end (sound for data-race-free code; races are the -race pass's job); file-backed pipes (4 MiB minimum) get a reduced set in thorough only",
        rule="execution = one schedule of one scenario (or one sequential word); states = distinct observable histories per scenario plus distinct sequential words; transitions = scheduling steps / operations; non-trivial = scenarios (each has conflicting operations by construction) and sequential words",
        parts=[dict(pkg="./pkg/libs/io/pipe", harness=["pipe"], test="^TestVerif_C09$", race_test="^TestVerif_C09Race$", race=True, race_shards=4, shards=16,
                    gomaxprocs=1, budget=dict(quick=150, thorough=900))],
    ),
    "C18": dict(
        level="model_checking",
        engine="lockx+seqx",
        technique="stateless model checking of the real backlog under a cooperative scheduler (Lock/Cond.Wait are scheduling points; all schedules up to the preemption bound) plus exhaustive sequential operation words against the full write log as reference",
        text="backlog.go is compiled against the sync shim; for 8 scenarios (one writer, a following reader, a lagging reader about one capacity behind, "
             "blocked readers, a closer) every schedule with at most 3 (thorough 5) preemptions runs on the real code. Oracle from the event log and the "
             "position-coded write log: a successful read at offset o returns exactly log[o:o+n] with n>=1; invalid-offset only if o was outside "
             "[wpos-cap, wpos] at some moment of the call; never a success for an offset outside the range during the whole call; blocked readers are woken "
             "by every write and by close (lost wake-up invariant on the shim's wait queue, deadlock detection); DataRange/IsValid/NewReader agree with the "
             "log. Sequentially all words up to length 5 (6) over writes of sizes up to 2cap+1, ReadAt/Seek at offsets around both ends of the data range, "
             "reader operations and Close are checked after every step. Free-running -race pass of the same bodies. Two scenarios park three readers at the write position with fewer writes than readers and nobody closing: every one of them must be released. Rings are also started from a non-initial absolute position (the state after that many bytes were written long ago; offsets of the scenario are relative to it): the sequential words and seven scheduled scenarios run on the non-power-of-two ring just below 2^32, so that positions cross the 32-bit boundary without writing 4 GiB first. Writes of runs of zero bytes (4095, 4096, 4097, 8192 bytes and a whole ring) over the previous lap's data on both backends: the bytes read back must be the zeros written, not the older data. Offsets at the top of the uint64 range (an 'unknown offset' -1, write position minus capacity before the first wrap) are among the read and seek offsets of the sequential words.",
        note="the scheduler is sequentially consistent and switches only at Lock/Wait/thread end; the custom close error is not required to be the one reported (the statement only asks for an error); file backend reduced, thorough only",
        rule="execution = one schedule of one scenario or one sequential word; states = distinct observable histories per scenario plus distinct words; transitions = scheduling steps / operations; non-trivial = all",
        parts=[dict(pkg="./pkg/libs/io/backlog", harness=["backlog"], test="^TestVerif_C18$", race_test="^TestVerif_C18Race$", race=True, race_shards=4, shards=16,
                    gomaxprocs=1, budget=dict(quick=60, thorough=900))],
    ),
    "C03": dict(
        level="model_checking",
        engine="stimx (synctest + seqx)",
        technique="quiescence-stepped exploration of the real parser/sender/receiver goroutines inside a fake-clock bubble: every source stream up to a length x configuration, every environment schedule (segment delivery, 500 ms ticks, split segments) within a deviation bound, compared with a reference fold of the stream",
        text="The real parseSourceCommand, sendTargetCommand and receiveTargetReply run on their own goroutines against a model Redis (real redigo client, in-memory "
             "connections) inside a testing/synctest bubble. After each quiescence the explorer chooses the next environment event: deliver the next source command, "
             "deliver it in two halves, or let 500 ms pass (flush ticker). All well-formed streams up to the bound over 17 symbols (SELECTs, single/multi-key writes, "
             "non-idempotent INCR/RPUSH/APPEND, PING, MULTI/EXEC, sentinel hello, EVAL, OPINFO, keep-alive newline, mixed case) are crossed with the db/key/lua "
             "filters, target.db, resume, sender count/size and start database. Oracle: the commands the model applied (minus the tool's own SELECT/PING/checkpoint "
             "writes) equal, in order, argument for argument and database for database, a pure fold of the stream; no MULTI/EXEC reaches the target when resume is off; "
             "everything is applied after 1.1 s of idleness; no abort. A fourth environment answer pauses 300 ms (less than the flush period) to produce trickling streams; at every quiescent point of the bubble clock every forwarded command whose bytes were delivered 500 ms or more earlier must have been applied. "
             "A further sweep (streams up to the all-schedules length, configurations without db filter in the quick tier) adds the answer 'the next command arrives inside the sender's timer case' through the verifTimerCase seam: "
             "the command is written by the source and queued by the parser between the flush timer firing and the sender looking at its queue (inside a bubble the queue is otherwise always empty when a timer fires); there only the idle-stream bound is judged. Further sweeps run on a target connection that keeps the arguments of Send until Flush (model of the cluster connection) and with log.level=debug: directed streams with a 640-byte argument under every combination of the two, and all streams up to the all-schedules length with both.",
        note="trusts testing/synctest (A1), mredis (A5), redigo (A2); asynctimerchan=0 (A3). The cascade between two stimuli runs under the real Go scheduler; it is required to be deterministic and replayed traces must agree. Target stalls are not modelled in this check.",
        rule="execution = (stream, configuration, schedule); states = distinct executions; transitions = environment stimuli applied; non-trivial = the reference fold forwards at least one command",
        parts=[dict(pkg="./redis-shake/dbSync", harness=["dbsync"], test="^TestVerif_C03$", shards=16, gomaxprocs=2, budget=dict(quick=75, thorough=1500))],
    ),
    "C04": dict(
        level="fault_enumeration",
        engine="stimx (synctest + seqx) + crash enumeration",
        technique="every complete resume-enabled execution (stream x batching configuration x schedule) of the real sender is cut after every command the target received; the real LoadCheckpoint reads each cut state back and a real restart is run from it; all cut points are enumerated",
        text="For every well-formed stream up to the bound (multi-database, transactions, pings, key-filtered and non-idempotent commands) x sender thresholds x start "
             "database x schedules with <=1 (2) deviations, the exact command sequence the model target received is (a) parsed into MULTI..EXEC batches: the stored "
             "offset must be the source offset right after the batch's last command, no batch spans a SELECT, nothing is sent unbatched; (b) cut at EVERY prefix "
             "(an open MULTI is discarded, as Redis does): the real LoadCheckpoint must return an offset whose source-history prefix reproduces exactly the cut "
             "dataset, with the sender's run id; (c) a fresh syncer is restarted at that offset and database on the cut state with the source re-served from the "
             "next byte, and must end with the uninterrupted run's dataset. INCR/RPUSH/APPEND make a repeated command visible, SELECTs a checkpoint in the wrong db. In half of the end-to-end histories the last command arrives 11 s after the others: the model master lists the tool in INFO replication (the port announced with REPLCONF listening-port, the last acknowledged offset), so the tool's once-per-10-s poll has run before the last checkpoint is written.",
        note="layer 1 (sender level, broad) uses a fixed start offset; layer 2 (whole Sync() runs incl. checkpoint load, PSYNC, full sync, ACK ticks, cut after every target command, real restart) covers fewer histories; command-granular cuts cover byte-granular ones because Redis executes only complete commands; trusts mredis' MULTI/EXEC discard semantics (A5)",
        rule="execution = (stream, configuration, schedule); each contributes one case per cut position; non-trivial = executions with more than one cut position (at least one command reached the target)",
        parts=[dict(pkg="./redis-shake/dbSync", harness=["dbsync"], test="^TestVerif_C04$", shards=16, gomaxprocs=2, budget=dict(quick=75, thorough=1500)),
               # layer 2: whole Sync() runs; every run leaves ~64 MB of production-size buffers behind (goroutines that never end by design), so shards are short-lived
               dict(pkg="./redis-shake/dbSync", harness=["dbsync"], test="^TestVerif_C04E$", shards=16, shards_thorough=256, gomaxprocs=2, budget=dict(quick=75, thorough=600))],
    ),
    "C08": dict(
        level="model_checking",
        engine="stimx (synctest + seqx)",
        technique="exhaustive enumeration of environment histories (ack ticks, traffic bursts, connection cuts, refused redials) driving the real incremental-sync copy/ack/reconnect loop and parser inside a fake-clock bubble against a model master that records every ACK and PSYNC",
        text="The real runIncrementalSync (pSyncPipeCopy, the once-per-second ACK goroutine, the reconnect loop with SendPSyncContinue) runs against a model master; the real "
             "parser consumes the pipe. Every stimulus sequence up to the stated length over {1 s tick, deliver 7 bytes, deliver 8193 bytes (more than the 8 KiB copy "
             "buffer), cut the source connection} with at most two cuts and an accept/refuse choice at every redial is executed for start offsets 0, 1, 2^31, 2^40. "
             "Oracle: every ACK is <= start + bytes received so far and never decreases; after an idle tick it equals start + bytes received; every reconnect sends "
             "PSYNC <runid> start+received+1; every fully received command is delivered by the parser exactly once across reconnects and tagged with its true end "
             "position in the stream (the value checkpoints store). On every redial the model master refuses, accepts, or accepts and sends +CONTINUE together with the next 7 stream bytes in one write. Two more case families keep the full phase running (WaitFull open) for the first stimuli or for all of them: every ACK sent meanwhile, reconnects included, must be 0. A master that refuses the reconnect PSYNC either closes the link or keeps it open (two dial answers); whatever the tool sends on an open link afterwards is judged like any other PSYNC.",
        note="production-size bufio buffers (32 MiB / 8 MiB) are allocated by the reconnect path itself; the first connection uses 4 KiB buffers passed as parameters; the tool gives up by design after its fourth retry, so at most two cuts are explored",
        rule="execution = (start offset, stimulus sequence, dial answers); states = distinct executions; transitions = stimuli; non-trivial = executions containing at least one acknowledgement tick",
        parts=[dict(pkg="./redis-shake/dbSync", harness=["dbsync"], test="^TestVerif_C08$", shards=16, gomaxprocs=2, budget=dict(quick=75, thorough=1200))],
    ),
    "C05": dict(
        level="model_checking",
        engine="stimx (synctest) + exhaustive fragmentation",
        technique="exhaustive enumeration of reply framings x TCP fragmentations (every single and double cut position of short streams; boundary cuts pairwise for long ones) x consumer timings, executed on the real PSYNC reply parsing, bounded copy and pipe inside a fake-clock bubble against a model master",
        text="The model master answers the tool's PSYNC with k keep-alive newlines, +FULLRESYNC/+CONTINUE in several letter cases, more newlines, '$n', n position-coded RDB "
             "bytes (containing \\n, $, *, CR) and command bytes, delivered in the enumerated segments with the tool run to quiescence after each. The real "
             "SendPSyncListeningPort, SendPSyncContinue/waitRdbDump, runIncrementalSync/Iocopy/pSyncPipeCopy and the pipe are composed as sendPSyncCmd composes them, "
             "with bufio sizes 16 and 4096 and a 4 KiB pipe (so that the 8 KiB copy buffer, the bufio layer and the pipe capacity are all crossed), and through the real "
             "sendPSyncCmd with production sizes for a smaller set. Consumers read eagerly, one byte at a time, or only after the pipe has filled (back-pressure). "
             "Oracle: bytes out of the pipe == RDB || commands exactly; run id, offset and size used == announced; only ACK 0 during the RDB phase. Dump mode is checked by "
             "C05's second part in package run. After the hand-off the full phase is declared finished and the next acknowledged offset must be the announced offset plus exactly the bytes that followed the RDB. The output files already hold the (longer) output of an earlier run when the dump starts.",
        note="the small-buffer composition repeats the 25 lines of sendPSyncCmd in the harness (sizes are constants in the tool); the production composition itself is run on a subset",
        rule="execution = (framing, RDB size, tail, bufio size, consumer mode, cut set); states = distinct executions; transitions = segments delivered; non-trivial = executions with at least one cut",
        parts=[dict(pkg="./redis-shake/dbSync", harness=["dbsync"], test="^TestVerif_C05$", shards=16, gomaxprocs=2, budget=dict(quick=75, thorough=1200)),
               dict(pkg="./redis-shake", harness=["run"], test="^TestVerif_C05D$", shards=16, gomaxprocs=2, budget=dict(quick=60, thorough=600)),
               # the whole dump command: 1-3 sources x dump workers
               dict(pkg="./redis-shake", harness=["run"], test="^TestVerif_C05M$", shards=4, gomaxprocs=2, budget=dict(quick=60, thorough=120))],
    ),
    "C07": dict(
        level="model_checking",
        engine="stimx (synctest + seqx), request-level scheduling",
        technique="exhaustive enumeration (deviation-bounded) of the orders in which a shared model target answers the parallel workers' requests, driving the real full-sync / restore worker pools inside a fake-clock bubble",
        text="The real syncRDBFile (package dbSync) and restoreRDBFile (package run) run with 1-3 workers; every worker dials (dial hook) its own in-memory connection "
             "to ONE model Redis which holds every request until the explorer grants it, so the grant sequence decides both how entries are distributed over the "
             "workers and how their SELECT/RESTORE traffic interleaves. RDB files (written by rdbgen) spread keys over databases in several orders, with Lua scripts; "
             "configurations cover target.db, db and key filters, filter.lua, key_exists policies with a pre-existing key, and an injected error reply on the j-th "
             "RESTORE. Oracle at return: every passing key restored exactly once, in its own (or the fixed) database, with its value; filtered keys never; every "
             "script loaded unless filter.lua; a failed restore or a busy key under key_exists=none must surface as an error or abort, never as a clean return. Retry scenarios start the run again on the same syncer object after the injected failure was reported (as DbSyncer.Sync does) against an emptied target: the second run must restore everything. Half of the whole-sync scenarios configure sock.file_name / sock.file_size (a file-backed buffer between source link and parser).",
        note="grant orders are explored with a bound on deviations from first-come-first-served (stated in the evidence); which worker dequeues the next entry is left to the Go runtime within one quiescent step (GOMAXPROCS=1, replay checked); a free-running -race pass covers unsynchronised accesses",
        rule="execution = (scenario, grant order); states = distinct grant orders per scenario; transitions = grants; non-trivial = scenarios with more than one worker",
        parts=[dict(pkg="./redis-shake/dbSync", harness=["dbsync"], test="^TestVerif_C07$", race=True, race_test="^TestVerif_C07Race$", race_shards=4, shards=16, gomaxprocs=1, budget=dict(quick=75, thorough=1200)),
               dict(pkg="./redis-shake", harness=["run"], test="^TestVerif_C07R$", race=True, race_test="^TestVerif_C07RRace$", race_shards=4, shards=16, gomaxprocs=1, budget=dict(quick=75, thorough=1200)),
               # the whole restore command: 1-4 input files x file-level workers x per-file workers
               dict(pkg="./redis-shake", harness=["run"], test="^TestVerif_C07M$", shards=8, gomaxprocs=4, budget=dict(quick=75, thorough=300)),
               # the whole sync command: 1-3 standalone sources into one target, with and without resume
               dict(pkg="./redis-shake", harness=["run"], test="^TestVerif_C07S$", shards=8, gomaxprocs=2, budget=dict(quick=75, thorough=300))],
    ),
    "C16": dict(
        level="model_checking",
        engine="stimx (synctest) + exhaustive environment product",
        technique="exhaustive product of source keyspaces x every SCAN pagination (all compositions incl. empty pages) x vanishing-key events x configuration, driving the real rump executor (fetcher/writer/receiver goroutines, QoS ticker) inside a fake-clock bubble against a model source and a model target",
        text="The real dbRumperExecutor.exec runs against a model source whose SCAN answers follow a scripted pagination (every way to cut a database's key list into "
             "pages of <=3 keys, with empty pages at the start, middle or end, arbitrary non-zero cursors) and can make one key vanish between SCAN and DUMP or between "
             "DUMP and PTTL, and a model target (real redigo clients on in-memory connections, fake clock for the QoS and statistics tickers). Crossed with "
             "scan.key_number 1-3, big_key_threshold below/above the payloads, key_exists none/rewrite with and without a pre-existing target key, target.db, key and db "
             "filters, and key-file driven scans with 0..2*page+1 lines. Oracle after exec returns: every surviving, passing key has the source's logical value in "
             "the right database; its remaining TTL at the moment of RESTORE equals the PTTL the source answered (no expiry stays no expiry); vanished and filtered "
             "keys are skipped without stopping; the run returns within bounded fake time; a busy key under key_exists=none may stop the run but must not be overwritten silently. A key whose DUMP answered nil must not appear on the target; an expiring key that was gone when PTTL was asked must not appear as a persistent key. Key files are also tried with one empty line at every position. Rate limit: qps 1 and 2 with a source that answers one of the later SCAN pages only after 3 s (the limiter's bucket stays full over several refill ticks, then more keys than the bucket holds arrive); the run must still copy everything and end. Targets with fewer databases than the source answer SELECT n with an error: rump must not finish as if the keys of that database were in place.",
        note="the order in which databases are visited is a Go map order (not controlled; the oracle is on the final state only); cluster and special-cloud scanners are out of scope",
        rule="case = one point of the product; states = distinct cases; transitions = 4 per case (scan, dump/pttl, restore, confirm phases); non-trivial = all cases",
        parts=[dict(pkg="./redis-shake", harness=["run"], test="^TestVerif_C16$", shards=16, gomaxprocs=2, budget=dict(quick=75, thorough=1200)),
               # the whole rump command: 1-3 source addresses into one target
               dict(pkg="./redis-shake", harness=["run"], test="^TestVerif_C16M$", shards=4, gomaxprocs=2, budget=dict(quick=60, thorough=120))],
    ),
    "C17": dict(
        level="exploration",
        engine="seqx (inputs x parallel degrees) + synctest owned-channel schedules",
        technique="exhaustive enumeration of generated RDB inputs x worker-pool sizes through the real decode pipeline, output parsed back and compared as a multiset with the expected lines; plus every feed/drain order of the real worker function on harness-owned channels",
        text="Every classic value of the catalogue (all encodings: ziplists with every entry encoding, intsets, zipmap, quicklist, LZF, int strings; binary and invalid-UTF-8 "
             "keys; expiries; several databases; Lua scripts) is written by rdbgen into files of up to 12 keys and decoded by the real CmdDecode.decode with parallel = 1, "
             "2, 3, 8. The output is parsed back: the multiset of JSON lines must equal one line per string / list element with index / hash field / set member / zset "
             "member (score numerically equal), with db, type, expiry and base64 fields decoding to the exact bytes, plus one line per script, nothing else. For the "
             "worker hand-offs, decoderMain workers (1-3) run on channels the harness owns and every order of feeding entries and draining results is enumerated with "
             "the workers run to quiescence in between. One RDB holds a set whose decoded text exceeds the 8 MB writer buffer next to small keys: 2 and 3 workers, feed/drain orders within 1 (thorough 2) deviations. The whole-command runs set source.rdb.parallel the way the start-up checks leave it for decode (the number of inputs; 1 for every second file). Key names and script bodies contain characters that mean something to a formatter or a JSON writer (%, backslash, <, &, U+2028). The output file already holds the (longer) output of an earlier decode when the run starts.",
        note="the internal channel hand-offs of decode() itself are not interceptable without rewriting the function: they are covered by the owned-channel exploration of the worker function and by running the whole pipeline at several parallel degrees (stated limitation); streams and NaN scores are not decodable by design",
        rule="case = (file, parallel) or (entries, workers, feed/drain order); non-trivial = all (each compares the parsed output with the expected multiset)",
        parts=[dict(pkg="./redis-shake", harness=["run"], test="^TestVerif_C17$", shards=16, gomaxprocs=4, budget=dict(quick=75, thorough=600),
                    race=True, race_test="^TestVerif_C17Race$", race_shards=1)],
    ),
    "C06": dict(
        level="exploration",
        engine="seqx product over four real data paths",
        technique="exhaustive product of filter configurations x the whole key/database domain pushed through each real data path (full sync, incremental sync, restore, rump) and through the predicates, compared with one reference predicate transcribed from the statement",
        text="For every configuration (all non-empty subsets of the prefixes {a,ab,b} as key whitelist or blacklist; all non-empty subsets of {0,1,10} as db whitelist or "
             "blacklist; slot lists; filter.lua) one execution per data path carries the whole key domain (all strings <=3 over {a,b,c}, empty, binary, hash-tagged, upper "
             "case, the checkpoint key and near misses of it, a key named lua) in each of the databases {0,1,2,10,11}: an RDB through the real syncRDBFile and "
             "restoreRDBFile (2 workers), a command stream with SELECTs, script commands in mixed case, OPINFO and a sentinel hello through the real parser and sender, "
             "a model source through the real rump executor. The set of (db,key) pairs that reached the model target must equal the reference predicate for that path; "
             "Lua scripts / script commands pass exactly when filter.lua is off; OPINFO and sentinel hellos never arrive. The predicates are also compared directly. The incremental path is additionally crossed with target.db in {-1, every source database (filtered ones too), an unused one}; every SET carries its source database in its value, databases are re-selected in reverse order, and per (db,key) the number of forwarded SETs must equal the number sent. The full-sync, restore and rump paths are crossed with the same target.db values: every value carries a marker of its source database and the (db,key) decisions are read from the command log of the model target. Rump is also run with scan.special_cloud=tencent_cluster (one logical database, the database list does not come from INFO keyspace) under every filter configuration. The big hashes of the full-phase scenario live in database 3 (the small keys before them in database 0): every key, and every piece of a split hash, must land in its own database. Full path, target.db = -1: every configuration is also run against a target that refuses SCRIPT LOAD (-BUSY); the sync must then fail rather than report success without the script.",
        note="key lists and db lists are used one kind at a time per dimension (the tool refuses whitelist and blacklist together for databases); quick crosses key and db lists on a diagonal, thorough fully",
        rule="execution = (path, configuration) carrying len(keys) x len(dbs) independent decisions (counted as transitions); non-trivial = configurations with at least one list set",
        parts=[dict(pkg="./redis-shake/dbSync", harness=["dbsync"], test="^TestVerif_C06$", shards=16, gomaxprocs=2, budget=dict(quick=75, thorough=900)),
               dict(pkg="./redis-shake", harness=["run"], test="^TestVerif_C06R$", shards=16, gomaxprocs=2, budget=dict(quick=75, thorough=900)),
               dict(pkg="./redis-shake/filter", harness=["filter"], test="^TestVerif_C06F$", shards=1, budget=dict(quick=60, thorough=60))],
    ),
    "C19": dict(
        level="exploration",
        engine="monitor over explored executions (synctest scenarios)",
        technique="exhaustive product of run paths x log levels x fault injections executed on the real code against model peers that require the sentinel passwords; every log line, status document and configuration echo of every execution is scanned for the sentinels in plain, hex, base64 and byte-list form",
        text="Two distinct sentinel passwords are configured for source and target and REQUIRED by the model peers (so the AUTH path really runs). The whole DbSyncer.Sync() "
             "flow - topology discovery (cluster source), checkpoint load, PSYNC, full sync with 2 workers, incremental sync, source reconnect, restart after a target "
             "error, refused source password - and the restore / rump / dump paths run with the tool's logger redirected to a buffer, at debug level (every statement on "
             "the path formats its arguments) and at info level. After each execution the buffer, json and %v renderings of conf.GetSafeOptions(), DbSyncer.GetExtraInfo() "
             "and metric.NewMetricRest() are scanned. Coverage is reported as the set of distinct log call sites (file:line) that fired. A third part drives every connection helper of utils.go against every environment answer (dial refused, AUTH accepted / rejected / unknown to the peer and echoed back, peer closes, cluster start nodes unreachable, a standalone peer behind a loopback listener for the cluster client) x log level x auth_type. The connection-helper part also drives GetSlotDistribution; the error texts returned by the helpers whose callers log them (everything except AuthPassword, whose error every caller discards) are judged like log lines. A sync scenario starts from an existing checkpoint (the first PSYNC is answered +CONTINUE) and loses the source link afterwards.",
        note="a monitor can only speak for the statements that the explored paths reach; the evidence lists them. main.go (startup echo) does not compile on the pinned tree, so the echo is checked at conf.GetSafeOptions(), the only thing it prints",
        rule="execution = (path, log level, source type, resume, fault); states = distinct log call sites that fired; non-trivial = all executions (each authenticates with both sentinels)",
        parts=[dict(pkg="./redis-shake/dbSync", harness=["dbsync"], test="^TestVerif_C19$", shards=16, gomaxprocs=2, budget=dict(quick=75, thorough=300)),
               dict(pkg="./redis-shake", harness=["run"], test="^TestVerif_C19R$", shards=16, gomaxprocs=2, budget=dict(quick=75, thorough=300)),
               # connection helpers x environment answers (incl. the cluster client against a loopback listener)
               dict(pkg="./redis-shake/common", harness=["common"], test="^TestVerif_C19U$", shards=8, gomaxprocs=2, budget=dict(quick=75, thorough=300),
                    race=True, race_test="^TestVerif_C19Race$", race_shards=1)],
    ),
}
