# Check table used by bin/check. One entry per property; "parts" are (package, harness dirs, test).
ASSUMPTIONS = [
    "A1 the go1.26.8 compiler/runtime (and testing/synctest where used) are correct",
    "A4 the reference components under /verif/engine (written independently of the code under test) are right",
    "the code under test is compiled from /repo's working tree through a build overlay (see MANIFEST.hooks); only the listed call expressions are rewritten",
]

ENGINES = [
    dict(name="seqx", path="/verif/engine/seqx", serves_properties=[],
         kind_free_text="exhaustive word / product enumeration over the real (sequential) code with reference-model oracles"),
]

NOT_APPLICABLE = {}

CHECKS = {
    "C10": dict(
        level="model_checking",
        engine="seqx",
        technique="bounded exhaustive enumeration of all input byte strings / value trees executed on the real decoder, compared with an independent reference recogniser",
        text="Every byte string up to the bound over an alphabet containing every RESP structural byte is run through the real decoder and "
             "an independent three-valued recogniser: equal value, exact bytes consumed, position == bytes consumed, malformed => error. "
             "Plus exhaustive round trips of value trees, streams through several bufferings, all single-byte corruptions/truncations. "
             "A bounded-exhaustive result: it speaks for all inputs inside the stated bounds, not beyond.",
        note="trusts respref (engine/respref, ~250 lines, written from the protocol text); numbers longer than 3 digits are skipped in the byte enumeration to keep allocations small (counted)",
        rule="(a) every byte string up to bytes_max_len over the 12-symbol RESP alphabet (nodes of the word trie = states, "
             "one appended byte = transition), decoded by pkg/redis and by the independent recogniser respref; non-trivial = "
             "respref classifies the input valid, malformed or truncated (the oracle demands a value or an error; "
             "'unspecified' inputs only get the byte-accounting check); (b) value trees depth<=2 width<=2, Encode->Decode, "
             "2/3-value streams with keep-alive newlines through five bufferings, every single-byte substitution and "
             "truncation of each encoding; (c) command helpers; (d) itos over the whole pre-rendered table",
        parts=[dict(pkg="./pkg/redis", harness=["redis"], test="^TestVerif_C10$", shards=16,
                    budget=dict(quick=60, thorough=900))],
    ),
}
