// mkoverlay builds the go build overlay used by every check.
//
// It reads the CURRENT working tree of /repo/src, writes transformed copies of a handful of
// files below <work>/gen and an overlay JSON that
//   - mounts /verif/engine/<name>/*.go as github.com/alibaba/RedisShake/verifrt/<name>
//   - mounts /verif/harness/<dir>/*.go into the repo package named in harness/<dir>/MOUNT
//   - masks the repo's own _test.go files in packages a harness is mounted into
//   - rewrites (AST based) os.Exit in pkg/libs/log/log.go, the dial calls in
//     redis-shake/common/utils.go, the "sync" import of pipe.go/backlog.go, and drops a
//     duplicated const block in redis-shake/common/common.go
//   - optionally replaces one repo file by a mutant (-mutant dir: files keyed by relative path)
//
// usage: mkoverlay -repo /repo/src -verif /verif -work DIR [-mutant DIR] [-only a,b,c]
package main

import (
	"bytes"
	"encoding/json"
	"flag"
	"fmt"
	"go/ast"
	"go/format"
	"go/parser"
	"go/token"
	"io/ioutil"
	"os"
	"path/filepath"
	"sort"
	"strings"
)

type overlay struct {
	Replace map[string]string
}

var (
	repo   = flag.String("repo", "/repo/src", "repo src dir")
	verif  = flag.String("verif", "/verif", "verif dir")
	work   = flag.String("work", "", "work dir")
	mutant = flag.String("mutant", "", "mutant dir")
	only   = flag.String("only", "", "comma separated harness dirs to mount (default all)")
)

const modPath = "github.com/alibaba/RedisShake"

var seams []string

func must(err error) {
	if err != nil {
		fmt.Fprintln(os.Stderr, "mkoverlay:", err)
		os.Exit(2)
	}
}

func main() {
	flag.Parse()
	if *work == "" {
		must(fmt.Errorf("-work required"))
	}
	gen := filepath.Join(*work, "gen")
	must(os.MkdirAll(gen, 0755))
	ov := overlay{Replace: map[string]string{}}

	// source of a repo file: mutant copy if present, else the working tree
	src := func(rel string) string {
		if *mutant != "" {
			p := filepath.Join(*mutant, rel)
			if _, err := os.Stat(p); err == nil {
				return p
			}
		}
		return filepath.Join(*repo, rel)
	}
	// plain mutant replacements (files that are not rewritten below get mapped directly)
	rewritten := map[string]bool{}

	rewrite := func(rel string, f func(fset *token.FileSet, file *ast.File) bool, extra string) {
		rewritten[rel] = true
		in := src(rel)
		data, err := ioutil.ReadFile(in)
		if err != nil {
			seams = append(seams, "missing:"+rel)
			return
		}
		fset := token.NewFileSet()
		file, err := parser.ParseFile(fset, in, data, parser.ParseComments)
		if err != nil {
			// leave the file alone: the build will report the syntax error itself
			seams = append(seams, "unparsable:"+rel)
			if in != filepath.Join(*repo, rel) {
				ov.Replace[filepath.Join(*repo, rel)] = in
			}
			return
		}
		changed := f(fset, file)
		if !changed {
			seams = append(seams, "noseam:"+rel)
			if in != filepath.Join(*repo, rel) {
				ov.Replace[filepath.Join(*repo, rel)] = in
			}
			return
		}
		var buf bytes.Buffer
		must(format.Node(&buf, fset, file))
		buf.WriteString(extra)
		out := filepath.Join(gen, strings.Replace(rel, "/", "__", -1))
		must(ioutil.WriteFile(out, buf.Bytes(), 0644))
		ov.Replace[filepath.Join(*repo, rel)] = out
	}

	// non-test Go files of a repo package directory (working tree plus files a mutant adds)
	pkgFiles := func(dir string) []string {
		seen := map[string]bool{}
		var out []string
		for _, root := range []string{*repo, *mutant} {
			if root == "" {
				continue
			}
			ents, _ := ioutil.ReadDir(filepath.Join(root, dir))
			for _, e := range ents {
				n := e.Name()
				if e.IsDir() || !strings.HasSuffix(n, ".go") || strings.HasSuffix(n, "_test.go") || strings.HasPrefix(n, "zz_verif_") || seen[n] {
					continue
				}
				seen[n] = true
				out = append(out, filepath.Join(dir, n))
			}
		}
		sort.Strings(out)
		return out
	}
	// a rule applied to every file of a package: files without the seam are left alone (and not
	// reported), the package as a whole must contain it at least once
	rewriteAll := func(dir string, f func(fset *token.FileSet, file *ast.File) bool, extra string) {
		before := len(seams)
		hits := 0
		for _, rel := range pkgFiles(dir) {
			n0 := len(seams)
			rewrite(rel, f, extra)
			if len(seams) == n0 {
				hits++
			} else if len(seams) == n0+1 && strings.HasPrefix(seams[n0], "noseam:") {
				seams = seams[:n0]
			}
		}
		if hits == 0 {
			seams = append(seams[:before], "noseam:"+dir)
		}
	}

	// 1. package log: os.Exit(x) -> verifExit(x)
	rewriteAll("pkg/libs/log", func(fset *token.FileSet, file *ast.File) bool {
		n := 0
		ast.Inspect(file, func(nd ast.Node) bool {
			if call, ok := nd.(*ast.CallExpr); ok {
				if sel, ok := call.Fun.(*ast.SelectorExpr); ok {
					if id, ok := sel.X.(*ast.Ident); ok && id.Name == "os" && sel.Sel.Name == "Exit" {
						call.Fun = ast.NewIdent("verifExit")
						n++
					}
				}
			}
			return true
		})
		return n > 0
	}, "\nvar _ = os.Exit\n")
	ov.Replace[filepath.Join(*repo, "pkg/libs/log/zz_verif_exit.go")] = writeGen(gen, "zz_verif_exit.go", `package log

import "github.com/alibaba/RedisShake/verifrt/hook"

func verifExit(code int) { hook.Exit(code) }
`)

	// 2. utils.go: X.Dial("tcp", target) (net.Dial, d.Dial) -> verifDial("tcp", target);
	//    redigo.DialTimeout("tcp", addr, ...) -> verifRedigoDial("tcp", addr, ...)
	rewriteAll("redis-shake/common", func(fset *token.FileSet, file *ast.File) bool {
		n := 0
		ast.Inspect(file, func(nd ast.Node) bool {
			if call, ok := nd.(*ast.CallExpr); ok {
				if sel, ok := call.Fun.(*ast.SelectorExpr); ok {
					id, _ := sel.X.(*ast.Ident)
					if id == nil {
						return true
					}
					// net.Dial(network, addr) and <any dialer variable>.Dial(network, addr); the tls and
					// cluster-client dials have other arities and are left alone
					if sel.Sel.Name == "Dial" && len(call.Args) == 2 && id.Name != "tls" && id.Name != "redigo" {
						call.Fun = ast.NewIdent("verifDial")
						n++
					} else if sel.Sel.Name == "DialTimeout" && id.Name == "net" && len(call.Args) == 3 {
						call.Fun = ast.NewIdent("verifDial")
						call.Args = call.Args[:2]
						n++
					} else if sel.Sel.Name == "DialTimeout" && id.Name == "redigo" && len(call.Args) == 5 {
						call.Fun = ast.NewIdent("verifRedigoDial")
						n++
					} else if sel.Sel.Name == "DialWithDialer" && id.Name == "tls" && len(call.Args) == 4 {
						// tls.DialWithDialer(d, network, addr, cfg): a real TLS client over the hooked connection
						call.Fun = ast.NewIdent("verifTLSDialWithDialer")
						n++
					} else if sel.Sel.Name == "Dial" && id.Name == "tls" && len(call.Args) == 3 {
						call.Fun = ast.NewIdent("verifTLSDial")
						n++
					}
				}
			}
			return true
		})
		return n > 0
	}, "")
	ov.Replace[filepath.Join(*repo, "redis-shake/common/zz_verif_dial.go")] = writeGen(gen, "zz_verif_dial.go", `package utils

import (
	"crypto/tls"
	"net"
	"time"

	"github.com/alibaba/RedisShake/verifrt/hook"
	redigo "github.com/garyburd/redigo/redis"
)

func verifDial(network, addr string) (net.Conn, error) {
	if c, err, ok := hook.Dial(network, addr); ok {
		return c, err
	}
	return net.Dial(network, addr)
}

// verifTLSDial keeps the result shape of tls.Dial / tls.DialWithDialer: a refused dial or a failed
// handshake returns a nil *tls.Conn together with the error.
func verifTLSDial(network, addr string, cfg *tls.Config) (*tls.Conn, error) {
	nc, err, ok := hook.Dial(network, addr)
	if !ok {
		return tls.Dial(network, addr, cfg)
	}
	if err != nil {
		return nil, err
	}
	cc := &tls.Config{}
	if cfg != nil {
		cc = cfg.Clone()
	}
	if cc.ServerName == "" {
		if host, _, e := net.SplitHostPort(addr); e == nil {
			cc.ServerName = host
		}
	}
	tc := tls.Client(nc, cc)
	if err := tc.Handshake(); err != nil {
		nc.Close()
		return nil, err
	}
	return tc, nil
}

func verifTLSDialWithDialer(d *net.Dialer, network, addr string, cfg *tls.Config) (*tls.Conn, error) {
	_ = d // the dialer's options matter to the operating system only
	return verifTLSDial(network, addr, cfg)
}

func verifRedigoDial(network, addr string, a, b, c time.Duration) (redigo.Conn, error) {
	if nc, err, ok := hook.Dial(network, addr); ok {
		if err != nil {
			return nil, err
		}
		return redigo.NewConn(nc, b, c), nil
	}
	return redigo.DialTimeout(network, addr, a, b, c)
}
`)

	// 2b. dbSync: in a select that receives from the command queue (x.sendBuf), every case that
	// merely receives from another channel (the flush ticker/timer) starts with verifTimerCase():
	// the point between "the timer fired" and "the sender looks at the queue"
	rewriteAll("redis-shake/dbSync", func(fset *token.FileSet, file *ast.File) bool {
		n := 0
		isQueueRecv := func(st ast.Stmt) bool {
			var x ast.Expr
			switch s := st.(type) {
			case *ast.AssignStmt:
				if len(s.Rhs) == 1 {
					x = s.Rhs[0]
				}
			case *ast.ExprStmt:
				x = s.X
			}
			u, ok := x.(*ast.UnaryExpr)
			if !ok || u.Op != token.ARROW {
				return false
			}
			sel, ok := u.X.(*ast.SelectorExpr)
			return ok && sel.Sel.Name == "sendBuf"
		}
		ast.Inspect(file, func(nd ast.Node) bool {
			ss, ok := nd.(*ast.SelectStmt)
			if !ok {
				return true
			}
			hasQueue := false
			for _, c := range ss.Body.List {
				if cc := c.(*ast.CommClause); cc.Comm != nil && isQueueRecv(cc.Comm) {
					hasQueue = true
				}
			}
			if !hasQueue {
				return true
			}
			for _, c := range ss.Body.List {
				cc := c.(*ast.CommClause)
				if cc.Comm == nil || isQueueRecv(cc.Comm) {
					continue
				}
				if es, ok := cc.Comm.(*ast.ExprStmt); ok {
					if u, ok := es.X.(*ast.UnaryExpr); ok && u.Op == token.ARROW {
						call := &ast.ExprStmt{X: &ast.CallExpr{Fun: ast.NewIdent("verifTimerCase")}}
						cc.Body = append([]ast.Stmt{call}, cc.Body...)
						n++
					}
				}
			}
			return true
		})
		return n > 0
	}, "")
	ov.Replace[filepath.Join(*repo, "redis-shake/dbSync/zz_verif_timercase.go")] = writeGen(gen, "zz_verif_timercase.go", `package dbSync

import "github.com/alibaba/RedisShake/verifrt/hook"

func verifTimerCase() { hook.TimerCase() }
`)

	// 3. pipe.go / backlog.go: import "sync" -> vsync
	for _, dir := range []string{"pkg/libs/io/pipe", "pkg/libs/io/backlog"} {
		rewriteAll(dir, func(fset *token.FileSet, file *ast.File) bool {
			n := 0
			for _, imp := range file.Imports {
				if imp.Path.Value == `"sync"` {
					imp.Path.Value = `"` + modPath + `/verifrt/vsync"`
					imp.Name = ast.NewIdent("sync")
					n++
				}
			}
			return n > 0
		}, "")
	}

	// 4. common.go: drop a const block that redeclares names of an earlier const block
	rewrite("redis-shake/common/common.go", func(fset *token.FileSet, file *ast.File) bool {
		seen := map[string]bool{}
		var decls []ast.Decl
		dropped := 0
		for _, d := range file.Decls {
			gd, ok := d.(*ast.GenDecl)
			if !ok || gd.Tok != token.CONST {
				decls = append(decls, d)
				continue
			}
			dup := false
			var names []string
			for _, s := range gd.Specs {
				for _, nm := range s.(*ast.ValueSpec).Names {
					names = append(names, nm.Name)
					if nm.Name != "_" && seen[nm.Name] {
						dup = true
					}
				}
			}
			if dup {
				dropped++
				continue
			}
			for _, nm := range names {
				seen[nm] = true
			}
			decls = append(decls, d)
		}
		file.Decls = decls
		return dropped > 0
	}, "")

	// 5. remaining mutant files: direct replacement
	if *mutant != "" {
		filepath.Walk(*mutant, func(p string, info os.FileInfo, err error) error {
			if err != nil || info.IsDir() || !strings.HasSuffix(p, ".go") {
				return nil
			}
			rel, _ := filepath.Rel(*mutant, p)
			if !rewritten[rel] {
				ov.Replace[filepath.Join(*repo, rel)] = p
			}
			return nil
		})
	}

	// 6. engine packages
	engines, _ := ioutil.ReadDir(filepath.Join(*verif, "engine"))
	for _, e := range engines {
		if !e.IsDir() {
			continue
		}
		files, _ := ioutil.ReadDir(filepath.Join(*verif, "engine", e.Name()))
		for _, f := range files {
			if strings.HasSuffix(f.Name(), ".go") {
				ov.Replace[filepath.Join(*repo, "verifrt", e.Name(), f.Name())] = filepath.Join(*verif, "engine", e.Name(), f.Name())
			}
		}
	}

	// 7. harness dirs
	want := map[string]bool{}
	for _, s := range strings.Split(*only, ",") {
		if s != "" {
			want[s] = true
		}
	}
	hs, _ := ioutil.ReadDir(filepath.Join(*verif, "harness"))
	for _, h := range hs {
		if !h.IsDir() || (len(want) > 0 && !want[h.Name()]) {
			continue
		}
		dir := filepath.Join(*verif, "harness", h.Name())
		mnt, err := ioutil.ReadFile(filepath.Join(dir, "MOUNT"))
		if err != nil {
			continue
		}
		pkgRel := strings.TrimSpace(string(mnt))
		pkgDir := filepath.Join(*repo, pkgRel)
		// mask the repo's own test files in that package
		olds, _ := ioutil.ReadDir(pkgDir)
		for _, o := range olds {
			if strings.HasSuffix(o.Name(), "_test.go") {
				ov.Replace[filepath.Join(pkgDir, o.Name())] = ""
			}
		}
		files, _ := ioutil.ReadDir(dir)
		for _, f := range files {
			if strings.HasSuffix(f.Name(), ".go") {
				ov.Replace[filepath.Join(pkgDir, "zz_verif_"+f.Name())] = filepath.Join(dir, f.Name())
			}
		}
	}

	data, _ := json.MarshalIndent(ov, "", " ")
	must(ioutil.WriteFile(filepath.Join(*work, "overlay.json"), data, 0644))
	sort.Strings(seams)
	must(ioutil.WriteFile(filepath.Join(*work, "seams.txt"), []byte(strings.Join(seams, "\n")+"\n"), 0644))
}

func writeGen(gen, name, content string) string {
	p := filepath.Join(gen, name)
	must(ioutil.WriteFile(p, []byte(content), 0644))
	return p
}
