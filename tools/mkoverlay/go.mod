module mkoverlay

go 1.23
